"""C33 - driver collection types (narrow): paired state of OrderedMap, insertion discipline and accumulator feedback of SortedSet."""
import ast

from ..core import AnalysisError, src, body_walk, walk_no_nested, qual_of, parent

UTIL = 'cassandra/util.py'
MUT = ('append', 'pop', 'insert', 'remove', 'clear', 'extend', 'sort', 'reverse')


def check(chk):
    chk.decides = ('OrderedMap: every method that changes _items changes _index on the same path, index entries are keyed by _serialize_key, deletion renumbers the '
                   'later entries; SortedSet: the only positional insert uses the position returned by _find_insertion and is guarded against equality (no '
                   'duplicates), membership compares the element at that position, in-place operators adopt the items of a SortedSet result, and the '
                   'multi-operand operations feed their accumulator back into each step')
    chk.does_not_decide = 'set / map algebra over arbitrary operation sequences and element types'
    chk.rule('C33.paired', 'OrderedMap methods that mutate _items also mutate _index (and vice versa)')
    chk.rule('C33.key', 'every _index access uses a key produced by _serialize_key')
    chk.rule('C33.insert', 'SortedSet.add inserts at _find_insertion(item) only when the element there differs; append otherwise; __contains__/remove compare the element at that position')
    chk.rule('C33.accumulate', 'union / intersection / difference over several operands apply each step to the accumulated result')
    chk.rule('C33.inplace', 'in-place operators replace _items by the items of the corresponding SortedSet result')
    chk.rule('C33.alias', 'no two containers share one backing list: `<x>._items = <y>._items` only moves the list out of a temporary created in the same function; copies go through list(...)')
    m = chk.repo.mod(UTIL)
    _alias_rule(chk, m)
    _order_rule(chk, m)
    # an element may itself be a tuple: '%r' % element would take it as the argument list
    chk.rule('C33.fmt', 'SortedSet / OrderedMap: a %-format whose right operand is an element / key name wraps it in a tuple')
    nf = 0
    for q, f in m.functions():
        if not (q.startswith('SortedSet.') or q.startswith('OrderedMap')):
            continue
        params = set(a.arg for a in f.args.args) - set(['self'])
        for n in body_walk(f):
            if isinstance(n, ast.BinOp) and isinstance(n.op, ast.Mod) and isinstance(n.left, ast.Constant) and isinstance(n.left.value, str):
                nf += 1
                chk.judge(not (isinstance(n.right, ast.Name) and n.right.id in params), 'C33.fmt', n, '%s: %s' % (q, src(n)[:60]),
                          'a caller-supplied element is the bare right operand of %: a tuple element (frozen tuple / UDT value) makes the formatting fail with TypeError instead of the intended error')
    if nf < 2:
        raise AnalysisError('C33.fmt: %-format sites not found')
    for cname in ('OrderedMap', 'OrderedMapSerializedKey'):
        c = m.cls(cname)
        for f in c.body:
            if not isinstance(f, ast.FunctionDef) or f.name == '__init__':
                continue
            mi = mx = False
            for n in body_walk(f):
                if isinstance(n, ast.Call) and isinstance(n.func, ast.Attribute) and n.func.attr in MUT:
                    if src(n.func.value) == 'self._items':
                        mi = True
                    if src(n.func.value) == 'self._index' and n.func.attr in ('pop', 'clear'):
                        mx = True
                if isinstance(n, (ast.Assign, ast.Delete, ast.AugAssign)):
                    tg = n.targets if not isinstance(n, ast.AugAssign) else [n.target]
                    for t in tg:
                        base = t.value if isinstance(t, ast.Subscript) else t
                        if src(base) == 'self._items':
                            if isinstance(t, ast.Subscript) and isinstance(n, ast.Assign):
                                pass     # replacing the value of an existing entry keeps positions
                            else:
                                mi = True
                        if src(base) == 'self._index':
                            mx = True
            if mi or mx:
                chk.judge(mi == mx, 'C33.paired', f, '%s.%s changes _items and _index together' % (cname, f.name),
                          '%s.%s changes %s without %s: positions recorded in _index no longer match _items' % (cname, f.name, '_items' if mi else '_index', '_index' if mi else '_items'))
    chk.require('C33.paired', 4)
    om = m.cls('OrderedMap')
    for f in om.body:
        if not isinstance(f, ast.FunctionDef):
            continue
        for n in body_walk(f):
            key = None
            if isinstance(n, ast.Subscript) and src(n.value) == 'self._index':
                key = n.slice
            elif isinstance(n, ast.Call) and isinstance(n.func, ast.Attribute) and src(n.func.value) == 'self._index' and n.func.attr in ('get', 'pop') and n.args:
                key = n.args[0]
            if key is not None:
                ok = 'self._serialize_key(' in src(key) or src(key) == 'flat_key'
                if src(key) == 'flat_key':
                    ok = any(isinstance(st, ast.Assign) and src(st.targets[0]) == 'flat_key' and 'self._serialize_key(key)' in src(st.value) for st in body_walk(f))
                chk.judge(ok, 'C33.key', n, 'OrderedMap.%s: _index keyed by the serialized key (%s)' % (f.name, src(key)), 'index accessed with a raw key: unhashable / unequal-but-same-encoding keys break')
    chk.require('C33.key', 4)
    di = m.func('OrderedMap.__delitem__')
    _delitem_rule(chk, m, di)
    ins = m.func('OrderedMap._insert')
    _insert_rule(chk, m, ins)
    # the decoder's shortcut (keys already serialized, known to be distinct): the same pairing of item and index
    iu = m.func('OrderedMapSerializedKey._insert_unchecked')
    sts = [st for st in iu.body if not (isinstance(st, ast.Expr) and isinstance(st.value, ast.Constant))]
    txt = [src(st) for st in sts]
    forms = (['self._items.append((key, value))', 'self._index[flat_key] = len(self._items) - 1'],
             ['self._index[flat_key] = len(self._items)', 'self._items.append((key, value))'])
    oku = txt in [list(f_) for f_ in forms]
    if not oku and len(sts) == 3 and isinstance(sts[0], ast.Assign) and isinstance(sts[0].targets[0], ast.Name) and src(sts[0].value) == 'len(self._items)':
        v_ = sts[0].targets[0].id
        oku = sorted(txt[1:]) == sorted(['self._items.append((key, value))', 'self._index[flat_key] = %s' % v_])
    chk.judge(oku, 'C33.paired', iu, '_insert_unchecked: (key, value) appended and flat_key indexed at the position of that item',
              'the decoder\'s insert no longer indexes the key at the position of the appended item (%s)' % txt)
    sk = m.func('OrderedMapSerializedKey._serialize_key')
    chk.judge('self.cass_key_type.serialize(key, self.protocol_version)' in src(sk), 'C33.key', sk, 'map-column keys are identified by their CQL encoding', 'key identity changed')

    # SortedSet: only the in-place operators hand back the receiver; everything else that returns a set returns a new one
    chk.rule('C33.fresh', 'SortedSet: `return self` only in __iand__ / __ior__ / __isub__ / __ixor__; the binary operations and their helpers (_diff, _intersect, union ...) never return the receiver or the argument itself')
    INPLACE = ('__iand__', '__ior__', '__isub__', '__ixor__')
    nfresh = 0
    for f_ in m.methods('SortedSet'):
        for r_ in body_walk(f_):
            if isinstance(r_, ast.Return) and r_.value is not None and isinstance(r_.value, ast.Name) and r_.value.id in ('self', 'other'):
                nfresh += 1
                chk.judge(f_.name in INPLACE and r_.value.id == 'self', 'C33.fresh', r_, 'SortedSet.%s returns %s' % (f_.name, r_.value.id),
                          'SortedSet.%s can return %s itself: the result of a binary operation (a - b, a | b ...) is then the same object as an operand, and a later in-place change of the '
                          'result also changes the operand' % (f_.name, 'the receiver' if r_.value.id == 'self' else 'its argument'))
    chk.require('C33.fresh', 4)
    add = m.func('SortedSet.add')
    inserts = [n for q, f in m.functions() if q.startswith('SortedSet.') for n in body_walk(f) if isinstance(n, ast.Call) and src(n.func) == 'self._items.insert']
    chk.judge(len(inserts) == 1 and qual_of(inserts[0]) == 'SortedSet.add', 'C33.insert', add, 'the only positional insert into _items is in add()', 'positional inserts: %s' % [qual_of(i) for i in inserts])
    s = src(add)
    from ..cfg import CFG, Flow
    g = CFG(add)
    fl = Flow(g, 0, lambda n, c: c)
    nd = [n for n in g.stmt_nodes() if n.kind == 'stmt' and 'self._items.insert(i, item)' in src(n.ast)]
    ok = len(nd) == 1 and all(fa.knows('self._items[i] == item') is False and fa.knows('i < len(self._items)') is True for fa, _ in fl.at(nd[0])) and 'i = self._find_insertion(item)' in s
    chk.judge(ok, 'C33.insert', add, 'insert(i, item) with i = _find_insertion(item), only when _items[i] != item', 'an equal element can be inserted twice or at another position')
    ap = [n for n in g.stmt_nodes() if n.kind == 'stmt' and src(n.ast) == 'self._items.append(item)']
    chk.judge(len(ap) == 1 and all(fa.knows('i < len(self._items)') is False for fa, _ in fl.at(ap[0])), 'C33.insert', add, 'append only when the insertion point is past the end', 'append reachable inside the list')
    co = m.func('SortedSet.__contains__')
    chk.judge('i = self._find_insertion(item)' in src(co) and 'i < len(self._items) and self._items[i] == item' in src(co), 'C33.insert', co, 'membership: element at the insertion point equals item', 'membership test changed')
    rm = m.func('SortedSet.remove')
    grm = CFG(rm)
    flrm = Flow(grm, 0, lambda n, c: c)
    pops = [n for n in grm.stmt_nodes() if n.kind in ('stmt', 'return') and 'self._items.pop(i)' in src(n.ast)]
    okrm = len(pops) == 1 and all(fa.knows('self._items[i] == item') is True and fa.knows('i < len(self._items)') is True for fa, _ in flrm.at(pops[0])) \
        and 'i = self._find_insertion(item)' in src(rm)
    chk.judge(okrm and 'raise KeyError' in src(rm), 'C33.insert', rm, 'remove pops the equal element at the insertion point, else KeyError', 'remove changed')
    # accumulators
    for name in ('intersection', 'difference'):
        f = m.func('SortedSet.%s' % name)
        loops = [n for n in body_walk(f) if isinstance(n, ast.For) and src(n.iter) == 'others']
        good = False
        if len(loops) == 1:
            for st in loops[0].body:
                if isinstance(st, ast.Assign) and isinstance(st.targets[0], ast.Name) and isinstance(st.value, ast.Call) and isinstance(st.value.func, ast.Attribute):
                    acc = st.targets[0].id
                    good = src(st.value.func.value) == acc and [src(a) for a in st.value.args] == [src(loops[0].target)]
                    bad_recv = src(st.value.func.value)
        rets = [n for n in body_walk(f) if isinstance(n, ast.Return)]
        chk.judge(good and len(rets) == 1 and src(rets[0].value) == acc, 'C33.accumulate', f, 'SortedSet.%s: acc = acc.<step>(other) for every operand' % name,
                  'each step is applied to %s instead of the accumulated result: with two or more operands only the last one takes effect' % (bad_recv if loops else '?'))
        init = [st for st in f.body if isinstance(st, ast.Assign) and src(st.value) == 'self.copy()']
        chk.judge(len(init) == 1, 'C33.accumulate', f, 'SortedSet.%s starts from a copy of self' % name, 'accumulator does not start from self')
    un = m.func('SortedSet.union')
    chk.judge('union._items = list(self._items)' in src(un) and 'union.add(item)' in src(un) and 'for other in others' in src(un), 'C33.accumulate', un, 'union adds every element of every operand to a copy of self', 'union changed')
    for name, helper in (('_diff', 'item not in other'), ('_intersect', 'item in other')):
        f = m.func('SortedSet.%s' % name)
        chk.judge('for item in self._items' in src(f) and 'if %s' % helper in src(f), 'C33.accumulate', f, '%s keeps the elements with `%s`' % (name, helper), '%s filter changed' % name)
    for op, res in (('__iand__', 'self._intersect(other)'), ('__ior__', 'self.union(other)'), ('__isub__', 'self._diff(other)'), ('__ixor__', 'self.symmetric_difference(other)')):
        f = m.func('SortedSet.%s' % op)
        a = [st for st in f.body if isinstance(st, ast.Assign)]
        good = len(a) == 2 and src(a[0].value) == res and src(a[1].targets[0]) == 'self._items' and src(a[1].value) == '%s._items' % src(a[0].targets[0]) and src(f.body[-1]) == 'return self'
        chk.judge(good, 'C33.inplace', f, '%s: self._items = (%s)._items; return self' % (op, res), 'in-place operator changed')

    # the index of an ordered map is keyed in that map's own key space (pickle for OrderedMap, CQL encoding for OrderedMapSerializedKey)
    chk.rule('C33.keyspace', 'no OrderedMap method reads _items / _index of another map: entries are taken over through _insert, which re-keys them')
    om = m.cls('OrderedMap')
    foreign = [a for f_ in om.body if isinstance(f_, ast.FunctionDef) for a in ast.walk(f_)
               if isinstance(a, ast.Attribute) and a.attr in ('_items', '_index') and src(a.value) != 'self' and f_.name not in ('__eq__', '__ne__')]
    chk.judge(not foreign, 'C33.keyspace', om, 'OrderedMap touches only its own _items / _index',
              'another map\'s %s is copied (%s): a map decoded from a column keys its index by CQL encoding, a plain OrderedMap by pickle, so the copy looks keys up in the wrong key space'
              % (sorted(set(a.attr for a in foreign)), [src(a) for a in foreign][:2]))



def _order_rule(chk, util):
    """inclusion is a partial order: each of the four rich comparisons is spelled out; deriving them from one another (functools.total_ordering: a > b
    == not a <= b) is wrong for incomparable sets"""
    chk.rule('C33.order', 'SortedSet defines __le__ / __lt__ / __ge__ / __gt__ itself: <= issubset, >= issuperset, < and > additionally compare the sizes; no total_ordering')
    cls = util.cls('SortedSet')
    decos = [src(d) for d in cls.decorator_list]
    defs = dict((st.name, st) for st in cls.body if isinstance(st, ast.FunctionDef))
    missing = [n for n in ('__le__', '__lt__', '__ge__', '__gt__') if n not in defs]
    chk.judge(not missing and not any('total_ordering' in d for d in decos), 'C33.order', cls, 'all four inclusion comparisons are defined explicitly',
              'comparisons %s are not defined%s: for two sets neither of which contains the other a derived `a > b` / `a >= b` answers True' %
              (missing, ' and the class is decorated with total_ordering' if any('total_ordering' in d for d in decos) else ''))
    want = {'__le__': ('issubset', False), '__ge__': ('issuperset', False), '__lt__': ('issubset', True), '__gt__': ('issuperset', True)}
    for name, (meth, strict) in want.items():
        f = defs.get(name)
        if f is None:
            continue
        rets = [r for r in body_walk(f) if isinstance(r, ast.Return) and r.value is not None]
        txt = ' '.join(src(r.value) for r in rets)
        uses = ('self.%s(other)' % meth) in txt
        sized = any(isinstance(x, ast.Compare) and 'len(' in src(x) for r in rets for x in ast.walk(r.value))
        chk.judge(uses and (sized or not strict), 'C33.order', f, 'SortedSet.%s: %s%s' % (name, meth, ' and a size comparison' if strict else ''),
                  'SortedSet.%s no longer tests inclusion with %s%s' % (name, meth, ' plus a strict size comparison' if strict else ''))


def _alias_rule(chk, util):
    n = 0
    for cname in ('SortedSet', 'OrderedMap'):
        for q, f in util.functions():
            if not q.startswith(cname + '.'):
                continue
            params = set(a.arg for a in f.args.args)
            fresh = set()
            for st in body_walk(f):
                if isinstance(st, ast.Assign) and isinstance(st.targets[0], ast.Name) and isinstance(st.value, ast.Call):
                    fresh.add(st.targets[0].id)
            for st in body_walk(f):
                val = None
                what = None
                if isinstance(st, ast.Assign) and any(isinstance(t, ast.Attribute) and t.attr == '_items' for t in st.targets):
                    val, what = st.value, src(st.targets[0])
                elif isinstance(st, ast.Return) and st.value is not None and q.split('.')[-1] not in ('__iter__', '__reversed__'):
                    val, what = st.value, 'return'
                if val is None or not (isinstance(val, ast.Attribute) and val.attr == '_items' and isinstance(val.value, ast.Name)):
                    continue
                n += 1
                owner = val.value.id
                ok = owner in fresh and owner not in params
                chk.judge(ok, 'C33.alias', st, '%s: %s <- %s._items (a temporary built in this method)' % (q, what, owner),
                          '%s hands the backing list of `%s` to another container without copying: mutating one of them in place changes the other' % (q, owner))
    if n < 4:
        raise AnalysisError('C33.alias: expected at least 4 list hand-overs (the in-place operators), found %d' % n)


def _delitem_rule(chk, m, di):
    """__delitem__: R = self._index.pop(serialized key); the index becomes {k: i if i < R else i - 1}; self._items.pop(R)"""
    from .. import sem
    from ..fold import Folder, Unfoldable
    pops = [st for st in body_walk(di) if isinstance(st, ast.Assign) and len(st.targets) == 1 and isinstance(st.targets[0], ast.Name) and isinstance(st.value, ast.Call)
            and src(st.value.func) == 'self._index.pop']
    if len(pops) != 1:
        raise AnalysisError('OrderedMap.__delitem__: position of the removed key not found')
    R = pops[0].targets[0].id
    ipop = [c for c in body_walk(di) if isinstance(c, ast.Call) and src(c.func) == 'self._items.pop']
    ok = len(ipop) == 1 and [src(a) for a in ipop[0].args] == [R]
    # the new index
    news = [st for st in body_walk(di) if isinstance(st, ast.Assign) and src(st.targets[0]) == 'self._index']
    d = None
    if len(news) == 1:
        v = news[0].value
        if isinstance(v, ast.Name):
            ds = sem.elementwise(di).get(v.id, [])
            d = ds[0][0] if len(ds) == 1 else None
        else:
            d = sem._comp_descr(v)
    okd = d is not None and d[0] == 'dict' and d[1] == 'self._index.items()' and d[2][0] == '_e0'
    if okd:
        fo = Folder(m)
        e = ast.parse(d[2][1], mode='eval').body
        try:
            for r in range(0, 5):
                for i in range(0, 6):
                    if i == r:
                        continue        # the removed entry is gone from the index when it is renumbered
                    if fo.eval(e, env={'_e1': i, '_e0': 'k', R: r}) != (i if i < r else i - 1):
                        okd = False
        except Unfoldable as ex:
            raise AnalysisError('OrderedMap.__delitem__: renumbering expression %s not understood: %s' % (d[2][1], ex))
    chk.judge(ok and okd, 'C33.paired', di, '__delitem__ renumbers the entries after the removed position (positions below it stay, later ones move down by one) and removes that item',
              'deletion no longer renumbers later entries (%s)' % (d,))


def _insert_rule(chk, m, ins):
    """_insert: P = self._index.get(flat_key, -1); present (P >= 0): self._items[P] = (key, value); absent: append (key, value) and index it at the last position"""
    from .. import sem
    from ..cfg import Flow
    from ..fold import Folder, Unfoldable
    g, fl = sem.flow_of(ins)
    fo = Folder(m)
    gets = [st for st in body_walk(ins) if isinstance(st, ast.Assign) and len(st.targets) == 1 and isinstance(st.targets[0], ast.Name) and src(st.value) == 'self._index.get(flat_key, -1)']
    if len(gets) != 1:
        raise AnalysisError('OrderedMap._insert: position lookup self._index.get(flat_key, -1) not found')
    P = gets[0].targets[0].id

    def entry(e):
        e = sem.resolve(ins, e)
        return isinstance(e, ast.Tuple) and [src(x) for x in e.elts] == ['key', 'value']

    def outcome(expr):
        """which edge of a test on P alone is taken by the absent key (P == -1): 'T' / 'F' / None"""
        names = set(n.id for n in ast.walk(expr) if isinstance(n, ast.Name))
        if names != set([P]):
            return None
        try:
            absent = bool(fo.eval(expr, env={P: -1}))
            present = set(bool(fo.eval(expr, env={P: k})) for k in (0, 1, 2, 9))
        except Unfoldable:
            return None
        if present == set([not absent]):
            return 'T' if absent else 'F'
        return None

    # state: (P still holds the looked-up position, absent?, appended, names holding len(self._items) taken before the append)
    def step(n, c):
        fresh, absent, appended, lens = c
        if n.kind == 'stmt' and isinstance(n.ast, ast.Assign) and len(n.ast.targets) == 1 and isinstance(n.ast.targets[0], ast.Name):
            t = n.ast.targets[0].id
            if n.ast is gets[0]:
                fresh = True
            elif t == P:
                fresh = False
            if src(n.ast.value) == 'len(self._items)' and not appended:
                lens = lens | frozenset([t])
            else:
                lens = lens - frozenset([t])
        if n.kind == 'stmt' and isinstance(n.ast, ast.Expr) and isinstance(n.ast.value, ast.Call) and src(n.ast.value.func) == 'self._items.append':
            appended = True
        return (fresh, absent, appended, lens)

    def edge(n, s_, lab, c):
        fresh, absent, appended, lens = c
        if lab is not None and lab[0] in ('T', 'F') and fresh:
            o = outcome(lab[1])
            if o is not None:
                absent = (lab[0] == o)
        return (fresh, absent, appended, lens)
    f2 = Flow(g, (False, None, False, frozenset()), step, edge=edge)
    repl = [n for n in g.stmt_nodes() if n.kind == 'stmt' and isinstance(n.ast, ast.Assign) and isinstance(n.ast.targets[0], ast.Subscript) and src(n.ast.targets[0].value) == 'self._items']
    apps = [n for n in g.stmt_nodes() if n.kind == 'stmt' and isinstance(n.ast, ast.Expr) and isinstance(n.ast.value, ast.Call) and src(n.ast.value.func) == 'self._items.append']
    idx = [n for n in g.stmt_nodes() if n.kind == 'stmt' and isinstance(n.ast, ast.Assign) and src(n.ast.targets[0]) == 'self._index[flat_key]']
    ok = len(repl) == 1 and len(apps) == 1 and len(idx) == 1
    why = 'replace / append / index statements: %d / %d / %d' % (len(repl), len(apps), len(idx))
    if ok:
        why = []
        if not (src(repl[0].ast.targets[0].slice) == P and entry(repl[0].ast.value) and all(c[0] and c[1] is False for _f, c in f2.at(repl[0]))):
            why.append('the stored position is overwritten on a path where the key may be new, or not with (key, value)')
        if not (entry(apps[0].ast.value.args[0]) and all(c[1] is True for _f, c in f2.at(apps[0]))):
            why.append('(key, value) is appended on a path where the key may already be present')
        v = src(idx[0].ast.value)
        after = all(c[2] for _f, c in f2.at(idx[0]))
        before = all(not c[2] for _f, c in f2.at(idx[0]))
        good_idx = (after and (v == 'len(self._items) - 1' or all(v in c[3] for _f, c in f2.at(idx[0])))) or \
            (before and (v == 'len(self._items)' or all(v in c[3] for _f, c in f2.at(idx[0]))) and sem.passes_before(g, idx[0], g.exit, apps))
        if not (good_idx and all(c[1] is True for _f, c in f2.at(idx[0]))):
            why.append('the new key is indexed at %s, which is not the position of the appended item' % v)
        ok = not why
    chk.judge(ok, 'C33.paired', ins, '_insert: existing key keeps its position; a new key is appended and indexed at the last position',
              'insert position bookkeeping changed: %s' % (why if isinstance(why, str) else '; '.join(why)))
