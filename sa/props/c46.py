"""C46 - per-statement options override profile and session defaults (structure)."""
import ast

from ..core import AnalysisError, src, body_walk, walk_no_nested, parent, enclosing
from ..cfg import CFG, Flow
from ..fold import Folder, Unfoldable

CLUSTER = 'cassandra/cluster.py'
QUERY = 'cassandra/query.py'
PROTOCOL = 'cassandra/protocol.py'

# option -> (statement attribute, profile attribute, legacy default expression, may the set value be falsy?)
OPTIONS = {
    'cl': ('consistency_level', 'execution_profile.consistency_level', 'self.default_consistency_level', True),
    'serial_cl': ('serial_consistency_level', 'execution_profile.serial_consistency_level', 'self.default_serial_consistency_level', True),
    'retry_policy': ('retry_policy', 'execution_profile.retry_policy', 'self.cluster.default_retry_policy', False),
}
PLAIN = {   # taken from the profile / session as they are (the statement has no such setting)
    'row_factory': ('execution_profile.row_factory', 'self.row_factory'),
    'load_balancing_policy': ('execution_profile.load_balancing_policy', 'self.cluster.load_balancing_policy'),
    'spec_exec_policy': ('execution_profile.speculative_execution_policy', 'None'),
    'continuous_paging_options': ('execution_profile.continuous_paging_options', 'None'),
}


class _Obj(object):
    """a truthy stand-in for a policy object"""
    def __repr__(self):
        return '<policy object>'


def params_of(func):
    return [a.arg for a in func.args.args]


def bind_args(call, func, skip_self=True):
    """{parameter name: argument source} for a call of func"""
    ps = params_of(func)[1 if skip_self else 0:]
    out = {}
    for i, a in enumerate(call.args):
        if isinstance(a, ast.Starred) or i >= len(ps):
            return None
        out[ps[i]] = src(a)
    for k in call.keywords:
        if k.arg is None:
            return None
        out[k.arg] = src(k.value)
    return out


def check(chk):
    chk.decides = ('in both configuration arms of Session._create_response_future the effective consistency level, serial consistency level and retry policy equal the '
                   'statement\'s value whenever it has one (evaluated over unset / set-but-falsy such as ConsistencyLevel.ANY == 0 / set-and-truthy) and the profile\'s or '
                   'session\'s otherwise; timeout and fetch size fall back only on their identity sentinels; row factory, load-balancing and speculative policies come '
                   'from the same-named profile attribute (session attribute in legacy mode); those very variables, not re-assigned, are bound to the same-named '
                   'parameters of every message constructor and of ResponseFuture; a bound statement starts from the prepared statement\'s options and takes its own '
                   'only when given; Statement.__init__ stores an option only when it was given')
    chk.does_not_decide = 'the bytes of the encoded message (C03)'
    chk.assumptions.append('retry policies are plain objects (truthy); consistency levels are small integers including 0')
    chk.rule('C46.precedence', 'effective option == statement value if set (even when falsy) else profile/session default; folded over a three-valued statement domain')
    chk.rule('C46.sentinel', 'timeout falls back only under `is _NOT_SET`, fetch_size only under `is FETCH_SIZE_UNSET`')
    chk.rule('C46.source', 'profile arm reads execution_profile.<same name>; legacy arm reads the session/cluster defaults')
    chk.rule('C46.carried', 'the option variables reach the same-named parameters of the message constructors / ResponseFuture, single definition per arm')
    chk.rule('C46.bound', 'BoundStatement copies the prepared statement\'s options before Statement.__init__ applies the explicitly given ones')
    cl = chk.repo.mod(CLUSTER)
    folder = Folder(cl)
    f = cl.func('Session._create_response_future')
    arms = [n for n in f.body if isinstance(n, ast.If) and src(n.test) == 'self.cluster._config_mode == _ConfigMode.LEGACY']
    if len(arms) != 1:
        raise AnalysisError('_create_response_future: legacy/profile split not found')
    legacy, profile = arms[0].body, arms[0].orelse
    for armname, body in (('legacy', legacy), ('profile', profile)):
        asg = {}
        for st in body:
            if isinstance(st, ast.Assign) and isinstance(st.targets[0], ast.Name):
                asg.setdefault(st.targets[0].id, []).append(st)
        # `v = E1` followed by `if v is None: v = E2` is the statement form of `v = E1 if E1 is not None else E2`
        for i_, st in enumerate(body[:-1]):
            nx = body[i_ + 1]
            if isinstance(st, ast.Assign) and len(st.targets) == 1 and isinstance(st.targets[0], ast.Name) and isinstance(nx, ast.If) and not nx.orelse and len(nx.body) == 1 \
                    and src(nx.test) == '%s is None' % st.targets[0].id and isinstance(nx.body[0], ast.Assign) and src(nx.body[0].targets[0]) == st.targets[0].id \
                    and len(asg.get(st.targets[0].id, [])) == 1:
                merged = ast.Assign(targets=st.targets, value=ast.IfExp(test=ast.Compare(left=st.value, ops=[ast.IsNot()], comparators=[ast.Constant(value=None)]),
                                                                         body=st.value, orelse=nx.body[0].value))
                ast.copy_location(merged, st)
                ast.fix_missing_locations(merged)
                from ..core import parent as _parent46
                merged._verif_parent = getattr(st, '_verif_parent', None)
                asg[st.targets[0].id] = [merged]
                asg.setdefault('__origin__', {})[id(merged)] = st
        for var, (sattr, pexpr, lexpr, falsy_ok) in sorted(OPTIONS.items()):
            sts = asg.get(var, [])
            if len(sts) != 1:
                chk.viol('C46.precedence', f, '%s arm: %s' % (armname, var), '%d assignments of %s in the %s arm (one expected)' % (len(sts), var, armname))
                continue
            e = sts[0].value
            default_text = lexpr if armname == 'legacy' else pexpr
            dflt = _Obj() if not falsy_ok else 7
            domain = [None, 0, 3] if falsy_ok else [None, _Obj()]
            bad = []
            for sv in domain:
                env = _env(default_text, dflt)
                env['query'] = {sattr: sv}
                try:
                    got = folder.eval(e, env=env)
                except Unfoldable as ex:
                    raise AnalysisError('%s arm: `%s` not foldable: %s' % (armname, src(e), ex))
                want = sv if sv is not None else dflt
                if got is not want and got != want:
                    bad.append('statement.%s=%r -> %r (want %r)' % (sattr, sv, got, want))
            names = set(src(x) for x in ast.walk(e) if isinstance(x, ast.Attribute))
            chk.judge(not bad and default_text in names, 'C46.precedence', asg.get('__origin__', {}).get(id(sts[0]), sts[0]), '%s arm: %s = statement.%s if set else %s, over %d statement values' % (armname, var, sattr, default_text, len(domain)),
                      '`%s` loses a statement-level setting: %s' % (src(sts[0]), '; '.join(bad)) if bad else 'default source is not %s' % default_text)
        for var, (pexpr, lexpr) in sorted(PLAIN.items()):
            sts = asg.get(var, [])
            want = lexpr if armname == 'legacy' else pexpr
            chk.judge(len(sts) == 1 and src(sts[0].value) == want, 'C46.source', sts[0] if sts else f, '%s arm: %s = %s' % (armname, var, want), '%s arm: %s comes from `%s`' % (armname, var, src(sts[0].value) if sts else None))
        # timeout
        tos = [st for st in body if isinstance(st, ast.If) and any(isinstance(x, ast.Assign) and src(x.targets[0]) == 'timeout' for x in st.body)]
        want = 'self.default_timeout' if armname == 'legacy' else 'execution_profile.request_timeout'
        ok = len(tos) == 1 and src(tos[0].test) == 'timeout is _NOT_SET' and [src(x) for x in tos[0].body] == ['timeout = %s' % want] and not tos[0].orelse
        chk.judge(ok, 'C46.sentinel', tos[0] if tos else f, '%s arm: timeout defaults to %s only when the caller passed the _NOT_SET sentinel (None = no timeout is kept)' % (armname, want), 'timeout fallback changed in the %s arm' % armname)
    # no other assignment of the option variables after the arms
    later = [st for st in f.body[f.body.index(arms[0]) + 1:] for x in ast.walk(st) if isinstance(x, (ast.Assign, ast.AugAssign)) for t in (x.targets if isinstance(x, ast.Assign) else [x.target])
             if src(t) in list(OPTIONS) + list(PLAIN) + ['timeout']]
    before = [st for st in f.body[:f.body.index(arms[0])] for x in ast.walk(st) if isinstance(x, ast.Assign) for t in x.targets if src(t) in list(OPTIONS) + list(PLAIN) + ['timeout']]
    chk.judge(not later and not before, 'C46.carried', f, 'the option variables are assigned only in the two arms', 'an option variable is re-assigned outside the arms: %s' % [src(x)[:60] for x in later + before])
    # execution_profile resolution
    ep = [st for st in profile if isinstance(st, ast.Assign) and src(st.targets[0]) == 'execution_profile']
    chk.judge(len(ep) == 1 and src(ep[0].value) == 'self._maybe_get_execution_profile(execution_profile)' and profile.index(ep[0]) == 0, 'C46.source', f, 'the named profile is resolved first', 'profile resolution changed')
    # fetch size
    g = CFG(f)
    fl = Flow(g, 0, lambda n, c: c)
    fs = [n for n in g.stmt_nodes() if n.kind == 'stmt' and isinstance(n.ast, ast.Assign) and src(n.ast.targets[0]) == 'fetch_size']
    shapes = sorted(src(n.ast) for n in fs)
    ok = shapes == ['fetch_size = None', 'fetch_size = query.fetch_size', 'fetch_size = self.default_fetch_size']
    if ok:
        d = [n for n in fs if src(n.ast.value) == 'self.default_fetch_size'][0]
        ok = all(fa.knows('fetch_size is FETCH_SIZE_UNSET') is True for fa, _ in fl.at(d))
        nn = [n for n in fs if src(n.ast.value) == 'None'][0]
        ok = ok and all(fa.knows('self._protocol_version == 1') is True for fa, _ in fl.at(nn))
    chk.judge(ok, 'C46.sentinel', f, 'fetch_size = statement\'s; session default only when it is the FETCH_SIZE_UNSET sentinel; None only on protocol 1', 'fetch size fallback changed: %s' % shapes)
    # carried
    proto = chk.repo.mod(PROTOCOL)
    want_bind = {'QueryMessage': {'consistency_level': 'cl', 'serial_consistency_level': 'serial_cl', 'fetch_size': 'fetch_size', 'continuous_paging_options': 'continuous_paging_options', 'timestamp': 'timestamp', 'paging_state': 'paging_state'},
                 'ExecuteMessage': {'consistency_level': 'cl', 'serial_consistency_level': 'serial_cl', 'fetch_size': 'fetch_size', 'continuous_paging_options': 'continuous_paging_options', 'timestamp': 'timestamp', 'paging_state': 'paging_state'},
                 'BatchMessage': {'consistency_level': 'cl', 'serial_consistency_level': 'serial_cl', 'timestamp': 'timestamp'}}
    nmsg = 0
    for c in body_walk(f):
        if isinstance(c, ast.Call) and isinstance(c.func, ast.Name) and c.func.id in want_bind:
            nmsg += 1
            b = bind_args(c, proto.func('%s.__init__' % c.func.id))
            if b is None:
                chk.viol('C46.carried', c, src(c)[:60], 'message constructor call not resolvable')
                continue
            wrong = dict((k, b.get(k)) for k, v in want_bind[c.func.id].items() if b.get(k) != v)
            chk.judge(not wrong, 'C46.carried', c, '%s(...): %s' % (c.func.id, ', '.join('%s=%s' % kv for kv in sorted(want_bind[c.func.id].items()))),
                      'the effective options are not what the message carries: %s' % wrong)
    if nmsg < 4:
        raise AnalysisError('_create_response_future: expected 4 message constructions, found %d' % nmsg)
    rfc = [c for c in body_walk(f) if isinstance(c, ast.Call) and src(c.func) == 'ResponseFuture']
    rfi = cl.func('ResponseFuture.__init__')
    b = bind_args(rfc[0], rfi) if len(rfc) == 1 else None
    want = {'timeout': 'timeout', 'retry_policy': 'retry_policy', 'row_factory': 'row_factory', 'load_balancer': 'load_balancing_policy', 'message': 'message', 'query': 'query',
            'prepared_statement': 'prepared_statement', 'speculative_execution_plan': 'spec_exec_plan', 'continuous_paging_state': 'continuous_paging_state', 'host': 'host'}
    wrong = dict((k, (b or {}).get(k)) for k, v in want.items() if (b or {}).get(k) != v)
    chk.judge(b is not None and not wrong, 'C46.carried', rfc[0] if rfc else f, 'ResponseFuture(...): %s' % ', '.join('%s=%s' % kv for kv in sorted(want.items())), 'the future does not get the effective options: %s' % wrong)
    from ..sem import guarded_creations
    made, other = guarded_creations(f, 'spec_exec_plan', 'new_plan')
    oksp = len(made) == 1 and src(made[0][0].func.value) == 'spec_exec_policy' and [src(a) for a in made[0][0].args] == ['query.keyspace or self.keyspace', 'query'] \
        and set(['query.is_idempotent', 'spec_exec_policy']) <= made[0][1] and all(isinstance(o, ast.Constant) and o.value is None for o in other)
    chk.judge(oksp, 'C46.carried', f,
              'speculative plan from the effective policy, only for idempotent statements', 'speculative plan derivation changed')
    # ResponseFuture stores them
    s = src(rfi)
    for a, b_ in (('self._retry_policy', 'retry_policy'), ('self.row_factory', 'row_factory'), ('self._load_balancer', 'load_balancer'), ('self.timeout', 'timeout'), ('self.message', 'message')):
        chk.judge('%s = %s' % (a, b_) in s, 'C46.carried', rfi, 'ResponseFuture keeps %s' % b_, '%s no longer stored from the %s parameter' % (a, b_), nontrivial=False)
    # bound statement
    q = chk.repo.mod(QUERY)
    bi = q.func('BoundStatement.__init__')
    sti = q.func('Statement.__init__')
    sup = [(i, st) for i, st in enumerate(bi.body) if isinstance(st, ast.Expr) and isinstance(st.value, ast.Call) and src(st.value.func) == 'Statement.__init__']
    if len(sup) != 1:
        raise AnalysisError('BoundStatement.__init__: Statement.__init__ call not found')
    b = bind_args(sup[0][1].value, sti, skip_self=False)
    for opt in ('retry_policy', 'consistency_level', 'serial_consistency_level', 'fetch_size', 'custom_payload'):
        cp = [i for i, st in enumerate(bi.body) if isinstance(st, ast.Assign) and src(st) == 'self.%s = prepared_statement.%s' % (opt, opt)]
        ok = len(cp) == 1 and cp[0] < sup[0][0] and b is not None and b.get(opt) == opt
        chk.judge(ok, 'C46.bound', bi, 'bound.%s: prepared statement\'s value first, the explicit argument (if any) on top' % opt,
                  'a bound statement does not inherit / cannot override %s' % opt)
        guard = [st for st in sti.body if isinstance(st, ast.If) and [src(x) for x in st.body] == ['self.%s = %s' % (opt, opt)]]
        want_test = '%s is not FETCH_SIZE_UNSET' % opt if opt == 'fetch_size' else '%s is not None' % opt
        chk.judge(len(guard) == 1 and src(guard[0].test) == want_test and not guard[0].orelse, 'C46.bound', sti, 'Statement.__init__ stores %s only when given (%s)' % (opt, want_test),
                  'Statement.__init__ overwrites %s with the "not given" marker, or drops a falsy value' % opt)
    # class defaults mean "unset"
    scls = q.cls('Statement')
    dfl = dict((src(st.targets[0]), src(st.value)) for st in scls.body if isinstance(st, ast.Assign))
    ok = dfl.get('retry_policy') == 'None' and dfl.get('consistency_level') == 'None' and dfl.get('fetch_size') == 'FETCH_SIZE_UNSET' and dfl.get('_serial_consistency_level') == 'None'
    chk.judge(ok, 'C46.bound', scls, 'class defaults are the "unset" markers (None / FETCH_SIZE_UNSET)', 'statement class defaults changed: %s' % dict((k, dfl.get(k)) for k in ('retry_policy', 'consistency_level', 'fetch_size', '_serial_consistency_level')))
    _row_factory_rule(chk)


def _env(text, value):
    """environment in which the dotted `text` evaluates to value"""
    parts = text.split('.')
    d = value
    for p in reversed(parts[1:]):
        d = {p: d}
    return {parts[0]: d}


def _row_factory_rule(chk):
    """the effective row factory was resolved when the request was built and handed to the future: every place in ResponseFuture that turns
    rows into results uses self.row_factory - the session default is read only to fill that attribute in __init__"""
    chk.rule('C46.rowfactory', 'ResponseFuture turns rows into results only with self.row_factory (the resolved option); session.row_factory is read only as the default in __init__')
    cl = chk.repo.mod('cassandra/cluster.py')
    n_uses = 0
    for q, f in cl.functions():
        if not q.startswith('ResponseFuture.'):
            continue
        for x in body_walk(f):
            if isinstance(x, ast.Attribute) and x.attr == 'row_factory' and isinstance(x.ctx, ast.Load):
                base = src(x.value)
                if q == 'ResponseFuture.__init__':
                    continue
                n_uses += 1
                chk.judge(base == 'self', 'C46.rowfactory', x, '%s reads %s' % (q, src(x)),
                          '%s uses %s instead of the row factory resolved for this request: rows of this code path (continuous paging) are built with the session default whatever '
                          'the execution profile or legacy setting says' % (q, src(x)))
    init = cl.func('ResponseFuture.__init__')
    asg = [st for st in body_walk(init) if isinstance(st, ast.Assign) and src(st.targets[0]) == 'self.row_factory']
    chk.judge(len(asg) == 1 and src(asg[0].value) == 'row_factory or session.row_factory', 'C46.rowfactory', init, 'self.row_factory = row_factory or session.row_factory',
              'the resolved row factory is not stored as given')
    if n_uses < 2:
        raise AnalysisError('ResponseFuture: uses of the row factory not found (%d)' % n_uses)
