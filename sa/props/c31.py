"""C31 - client timestamps strictly increase across threads (level proof: lock obligations + exhaustive rows of _next_timestamp)."""
import ast

from ..core import AnalysisError, src, body_walk, walk_no_nested, qual_of
from ..cfg import CFG, enumerate_paths
from ..guards import normalise_atom
from ..locks import held, holds
from .c09 import attr_writes

LEVEL = 'proof'
TS = 'cassandra/timestamps.py'


def check(chk):
    chk.decides = ('self.last is written only by __init__ (under the lock) and _next_timestamp; _next_timestamp has one call site, inside `with self.lock`, where '
                   'both the clock and self.last are read inside the same region; _next_timestamp compares now with last only, and on each of its two rows '
                   'returns a value > last and >= now and stores exactly that value: hence every call returns more than every earlier call and never less '
                   'than its own clock reading')
    chk.does_not_decide = 'nothing further: the argument is complete given that threading.Lock provides mutual exclusion'
    chk.assumptions.append('threading.Lock gives mutual exclusion; int arithmetic is exact; x + c > x for a positive literal c')
    chk.rule('C31.writers', 'self.last has exactly two writers: __init__ (inside the lock) and _next_timestamp')
    chk.rule('C31.region', '_next_timestamp is called only from __call__, inside `with self.lock`, with now= read from the clock and last=self.last both evaluated inside that region')
    chk.rule('C31.rows', 'every row of _next_timestamp: returned value > last, returned value >= now, self.last == returned value')
    m = chk.repo.mod(TS)
    cls = 'MonotonicTimestampGenerator'
    ws = [(st, f) for st, tgt, f in attr_writes(m, 'last') if isinstance(st, (ast.Assign, ast.AugAssign)) and src(tgt.value) == 'self']
    names = sorted(set(qual_of(f) for st, f in ws))
    chk.judge(names == ['%s.__init__' % cls, '%s._next_timestamp' % cls], 'C31.writers', m.cls(cls), 'writers of self.last: __init__, _next_timestamp', 'self.last is written by %s' % names)
    for st, f in ws:
        if qual_of(f).endswith('__init__'):
            chk.judge(holds(st, ('self',)), 'C31.writers', st, '__init__ writes self.last under self.lock', 'initial write outside the lock')
    init = m.func('%s.__init__' % cls)
    chk.judge('self.lock = Lock()' in src(init), 'C31.writers', init, 'self.lock is a threading.Lock created once in __init__', 'lock construction changed')
    locks = [(st, f) for st, tgt, f in attr_writes(m, 'lock') if isinstance(st, ast.Assign)]
    chk.judge(len(locks) == 1, 'C31.writers', init, 'self.lock is never replaced', 'self.lock is assigned %d times' % len(locks))

    # call sites of _next_timestamp
    sites = []
    for q, f in m.functions():
        for n in body_walk(f):
            if isinstance(n, ast.Call) and isinstance(n.func, ast.Attribute) and n.func.attr == '_next_timestamp':
                sites.append((q, n))
    chk.judge(len(sites) == 1 and sites[0][0] == '%s.__call__' % cls, 'C31.region', m.func('%s.__call__' % cls), '_next_timestamp has the single call site __call__', 'call sites: %s' % [s[0] for s in sites])
    if sites:
        call = sites[0][1]
        chk.judge(holds(call, ('self',)), 'C31.region', call, 'the call is inside `with self.lock`', '_next_timestamp runs outside the lock: two threads can read the same last and return the same timestamp')
        kw = dict((k.arg, k.value) for k in call.keywords)
        pos = list(call.args)
        now_e = kw.get('now', pos[0] if pos else None)
        last_e = kw.get('last', pos[1] if len(pos) > 1 else None)
        # a local name defined inside the same lock region stands for its definition
        region = [w for l, w in held(call) if l == ('self', 'lock')]

        def resolve(e):
            if isinstance(e, ast.Name) and region:
                defs = [st for st in ast.walk(region[0]) if isinstance(st, ast.Assign) and len(st.targets) == 1 and src(st.targets[0]) == e.id and st.lineno <= call.lineno]
                if len(defs) == 1:
                    return defs[0].value
            return e
        now_e, last_e = resolve(now_e) if now_e is not None else None, resolve(last_e) if last_e is not None else None
        chk.judge(last_e is not None and src(last_e) == 'self.last', 'C31.region', call, 'last= is self.last read inside the region (argument expression of the locked call)',
                  'last is %s: a value read before the lock was taken can be stale (another thread may have advanced self.last)' % (src(last_e) if last_e is not None else None))
        chk.judge(now_e is not None and 'time.time()' in src(now_e) and isinstance(now_e, ast.Call) and src(now_e.func) == 'int', 'C31.region', call,
                  'now= is int(time.time() * 1e6) evaluated inside the region', 'the clock is read outside the locked call (%s): "never behind the clock reading of that call" needs the reading taken under the lock' % (src(now_e) if now_e is not None else None))
        cf = m.func('%s.__call__' % cls)
        body = [st for st in cf.body if not (isinstance(st, ast.Expr) and isinstance(st.value, ast.Constant))]
        chk.judge(len(body) == 1 and isinstance(body[0], ast.With) and isinstance(body[0].body[-1], ast.Return) and body[0].body[-1].value is call,
                  'C31.region', cf, '__call__ returns exactly what _next_timestamp returned', '__call__ post-processes the timestamp outside the decision function')

    # rows
    nt = m.func('%s._next_timestamp' % cls)
    params = [a.arg for a in nt.args.args]
    chk.judge(params == ['self', 'now', 'last'], 'C31.rows', nt, '_next_timestamp(self, now, last)', 'signature changed: %s' % params)
    # now / last only compared or used in the literal arithmetic
    paths = [p for p in enumerate_paths(CFG(nt)) if p.end.kind == 'return']
    chk.judge(len(paths) == 2, 'C31.rows', nt, '_next_timestamp has exactly two rows', 'expected 2 rows, found %d' % len(paths))
    for p in paths:
        conds = dict((normalise_atom(e)[0], pl != normalise_atom(e)[1]) for e, pl in p.conds)
        stores = [n.ast for n in p.nodes if n.kind == 'stmt' and isinstance(n.ast, ast.Assign) and src(n.ast.targets[0]) == 'self.last']
        ret = p.end.ast.value
        label = 'row [%s]' % p.cond_text()
        if len(stores) != 1:
            chk.viol('C31.rows', nt, label + ': stores self.last once', 'self.last is stored %d times on this row' % len(stores))
            continue
        stored = stores[0].value
        rtxt = src(ret)
        # resolve `return self.last` to the stored expression
        val = stored if rtxt == 'self.last' else ret
        chk.judge(src(val) == src(stored), 'C31.rows', nt, label + ': self.last == returned value (%s)' % src(val), 'row returns %s but stores %s' % (rtxt, src(stored)))
        gt_last = False
        ge_now = False
        v = val
        if isinstance(v, ast.Name) and v.id == 'now':
            gt_last = conds.get('last < now') is True
            ge_now = True
        elif isinstance(v, ast.BinOp) and isinstance(v.op, ast.Add) and isinstance(v.left, ast.Name) and v.left.id == 'last' and isinstance(v.right, ast.Constant) \
                and isinstance(v.right.value, int) and v.right.value > 0:
            gt_last = True
            ge_now = conds.get('last < now') is False          # now <= last < last + c
        chk.judge(gt_last, 'C31.rows', nt, label + ': returned value > last', 'row returns %s which is not known to exceed last under [%s]' % (src(val), p.cond_text()))
        chk.judge(ge_now, 'C31.rows', nt, label + ': returned value >= now', 'row returns %s which may be behind the clock reading under [%s]' % (src(val), p.cond_text()))
    chk.extra['checker_cmd'] = './check C31'
