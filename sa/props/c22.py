"""C22 - token-aware plans (narrow): partition of the two loops over (is_up, distance) for replicas, ordering and fallbacks."""
import ast
import itertools

from ..core import AnalysisError, src, body_walk, walk_no_nested
from ..cfg import CFG, Flow

POL = 'cassandra/policies.py'


class _Stale(Exception):
    pass


def evaluate(expr, env):
    """evaluate a yield condition under env: {'is_up': bool, 'dist': 'LOCAL'|'REMOTE'|'IGNORED', 'in_replicas': bool}"""
    e = expr
    if isinstance(e, ast.BoolOp):
        vals = [evaluate(v, env) for v in e.values]
        return all(vals) if isinstance(e.op, ast.And) else any(vals)
    if isinstance(e, ast.UnaryOp) and isinstance(e.op, ast.Not):
        return not evaluate(e.operand, env)
    t = src(e)
    if t in ('replica.is_up', 'host.is_up'):
        return env['is_up']
    if isinstance(e, ast.Compare) and len(e.ops) == 1:
        l, r = src(e.left), src(e.comparators[0])
        if l.startswith('child.distance(') and r.startswith('HostDistance.'):
            if l != 'child.distance(%s)' % env.get('var', '?'):
                raise _Stale(l)
            v = env['dist'] == r.split('.')[1]
            return v if isinstance(e.ops[0], ast.Eq) else (not v if isinstance(e.ops[0], ast.NotEq) else None)
        if r == 'replicas' and l in ('host', 'replica'):
            if isinstance(e.ops[0], ast.In):
                return env['in_replicas']
            if isinstance(e.ops[0], ast.NotIn):
                return not env['in_replicas']
        if l == 'replica.is_up' or l == 'host.is_up':
            c = e.comparators[0]
            if isinstance(c, ast.Constant):
                if isinstance(e.ops[0], (ast.Is, ast.Eq)):
                    return env['is_up'] is c.value if c.value is not None else False
                if isinstance(e.ops[0], (ast.IsNot, ast.NotEq)):
                    return env['is_up'] is not c.value if c.value is not None else True
    raise AnalysisError('token-aware yield condition not understood: %s' % t)


def check(chk):
    chk.decides = ('over the finite domain (replica or not) x (is_up) x (distance LOCAL/REMOTE): every host of the wrapped plan is yielded by exactly one of '
                   'the two loops, replicas that are up and local come from the first; replicas are taken in ring order (shuffled only on request) from the '
                   'metadata for (statement keyspace or session keyspace, routing key); without routing key or keyspace the wrapped plan is used as is')
    chk.does_not_decide = 'replica computation itself (C26) and host state at run time'
    chk.rule('C22.partition', 'every host of the wrapped plan is yielded by exactly one loop for each (replica?, is_up, distance) combination')
    chk.rule('C22.first', 'the first loop yields exactly the replicas that are up and LOCAL, in the order of the replica list')
    chk.rule('C22.source', 'replicas = metadata.get_replicas(keyspace, routing_key) with keyspace = query.keyspace or the working keyspace; shuffle only if shuffle_replicas')
    chk.rule('C22.fallback', 'no query / no routing key / no keyspace: the wrapped plan unchanged')
    pol = chk.repo.mod(POL)
    f = pol.func('TokenAwarePolicy.make_query_plan')
    loops = [n for n in body_walk(f) if isinstance(n, ast.For)]
    first = [l for l in loops if src(l.iter) == 'replicas']
    second = [l for l in loops if 'child.make_query_plan(keyspace, query)' in src(l.iter) and any(isinstance(x, ast.If) for x in l.body)]
    if len(first) != 1 or len(second) != 1:
        raise AnalysisError('TokenAwarePolicy.make_query_plan: loops not recognised (%d/%d)' % (len(first), len(second)))

    class _Cond(object):
        """the yield behaviour of a loop body as a decision tree: how often the loop variable is yielded in one iteration, for a given valuation of the atoms"""
        def __init__(self, loop, var):
            self.loop, self.var = loop, var
            self.tests = []
            self._scan(loop.body)

        def _scan(self, stmts):
            for st in stmts:
                if isinstance(st, ast.If):
                    self.tests.append(st.test)
                    self._scan(st.body)
                    self._scan(st.orelse)
                elif isinstance(st, ast.Expr) and isinstance(st.value, ast.Yield) and src(st.value.value) == self.var:
                    pass
                elif isinstance(st, (ast.Continue, ast.Pass)):
                    pass
                else:
                    raise AnalysisError('loop over %s: statement `%s` is not part of an if / continue / yield %s decision' % (src(self.loop.iter), src(st)[:50], self.var))

        def count(self, env):
            def run(stmts):
                n = 0
                for st in stmts:
                    if isinstance(st, ast.If):
                        r = run(st.body if evaluate(st.test, env) else st.orelse)
                        if r is None:
                            return None if n == 0 else -n - 1000
                        if isinstance(r, tuple):
                            return (n + r[0],)
                        n += r
                    elif isinstance(st, ast.Continue):
                        return (n,)
                    elif isinstance(st, ast.Expr):
                        n += 1
                return n
            r = run(self.loop.body)
            return r[0] if isinstance(r, tuple) else r

    def yield_cond(loop, var):
        return _Cond(loop, var)
    v1, v2 = src(first[0].target), src(second[0].target)
    c1 = yield_cond(first[0], v1)
    c2 = yield_cond(second[0], v2)
    # every term of a loop's condition is about the host that loop is looking at
    chk.rule('C22.subject', 'each loop measures is_up / distance / membership of its own loop variable')
    for lp_, var_, cond_ in ((first[0], v1, c1), (second[0], v2, c2)):
        stale = sorted(set(src(x) for t_ in cond_.tests for x in ast.walk(t_) if isinstance(x, ast.Name) and x.id in (v1, v2) and x.id != var_))
        chk.judge(not stale, 'C22.subject', lp_, 'loop over %s tests only `%s`' % (src(lp_.iter)[:40], var_),
                  'the condition reads %s, the variable of the other loop (left over from its last iteration): whether a host of the wrapped plan is yielded depends on the last replica, '
                  'so remote replicas are dropped or local ones repeated' % stale)
        if stale:
            return
    for in_rep, is_up, dist in itertools.product((True, False), (True, False), ('LOCAL', 'REMOTE')):
        env = {'in_replicas': in_rep, 'is_up': is_up, 'dist': dist}
        y1 = c1.count(dict(env, var=v1)) if in_rep else 0
        y2 = c2.count(dict(env, var=v2))
        n = int(y1) + int(y2)
        label = 'host of the wrapped plan: replica=%s is_up=%s distance=%s' % (in_rep, is_up, dist)
        chk.judge(n == 1, 'C22.partition', f, label,
                  '%s is yielded %s (first loop: %s, second loop: %s)' % (label, 'twice' if n == 2 else 'by neither loop: it is lost from the plan', y1, y2))
    for is_up, dist in itertools.product((True, False), ('LOCAL', 'REMOTE', 'IGNORED')):
        y1 = c1.count({'in_replicas': True, 'is_up': is_up, 'dist': dist, 'var': v1})
        chk.judge(bool(y1) == (is_up and dist == 'LOCAL'), 'C22.first', first[0], 'first loop, replica is_up=%s distance=%s -> %s' % (is_up, dist, 'yield' if y1 else 'skip'),
                  'the first loop must yield exactly the replicas that are up and LOCAL')
    # order: first loop precedes the second in the same block
    from ..core import parent
    blk = parent(first[0])
    body = blk.orelse if first[0] in getattr(blk, 'orelse', []) else blk.body
    chk.judge(second[0] in body and body.index(first[0]) < body.index(second[0]), 'C22.first', f, 'replicas first, then the rest of the wrapped plan', 'loop order changed')
    s = src(f)
    chk.judge('replicas = self._cluster_metadata.get_replicas(keyspace, routing_key)' in s, 'C22.source', f, 'replicas from metadata.get_replicas(keyspace, routing_key)', 'replica source changed')
    sh = [n for n in body_walk(f) if isinstance(n, ast.If) and src(n.test) == 'self.shuffle_replicas']
    chk.judge(len(sh) == 1 and any(src(x) == 'shuffle(replicas)' for x in sh[0].body) and 'shuffle(' not in s.replace('shuffle(replicas)', '', 1), 'C22.source', f,
              'replicas shuffled only when shuffle_replicas', 'shuffling is unconditional or missing')
    top = f.body[0]
    good = isinstance(top, ast.If) and src(top.test) == 'query and query.keyspace' and 'keyspace = query.keyspace' in src(top.body[0]) and 'keyspace = working_keyspace' in src(top.orelse[0])
    chk.judge(good, 'C22.source', f, 'keyspace = statement keyspace if set, else the working keyspace', 'keyspace selection changed')
    chk.judge('routing_key = query.routing_key' in s, 'C22.source', f, 'routing key taken from the statement', 'routing key source changed')
    # fallbacks (decided from the branch facts on the paths that reach each loop, whatever the nesting of the tests)
    g = CFG(f)
    fl = Flow(g, 0, lambda n, c: c)
    plain = [n for n in g.nodes if n.kind == 'for_iter' and 'child.make_query_plan(keyspace, query)' in src(n.ast.iter) and n.ast not in second]
    if not plain:
        raise AnalysisError('TokenAwarePolicy.make_query_plan: no fallback loop over the wrapped plan')
    ok_plain = True
    for n in plain:
        states = list(fl.at(n))
        ok_plain = ok_plain and bool(states) and all(fa.knows('query is None') is True or fa.knows('routing_key is None') is True or fa.knows('keyspace is None') is True or fa.knows('query') is False
                                                    for fa, _c in states)
    chk.judge(ok_plain, 'C22.fallback', f, 'the wrapped plan is used as it is only without a query, a routing key or a keyspace',
              'a fallback loop is reached although query, routing key and keyspace are all present: replicas are not tried first')
    tok_nodes = [n for n in g.nodes if n.kind == 'for_iter' and n.ast in (first[0], second[0])]
    ok_tok = len(tok_nodes) == 2
    for n in tok_nodes:
        states = list(fl.at(n))
        ok_tok = ok_tok and bool(states) and all(fa.knows('routing_key is None') is False and fa.knows('keyspace is None') is False and
                                                 (fa.knows('query is None') is False or fa.knows('query') is True) for fa, _c in states)
    chk.judge(ok_tok, 'C22.fallback', f, 'the replica-first plan is built only with a query, a routing key and a keyspace',
              'the replica lookup is reached without a routing key / keyspace / query: get_replicas(None, ...) or an AttributeError on None')
    for n in plain:
        b = n.ast.body
        chk.judge(len(b) == 1 and isinstance(b[0], ast.Expr) and isinstance(b[0].value, ast.Yield) and src(b[0].value.value) == src(n.ast.target), 'C22.fallback', n.ast,
                  'fallback loop yields every host', 'a fallback loop filters hosts')
    chk.require('C22.partition', 8)

    # replicas come from the per-keyspace cache: an entry that exists - even an empty one left by an unknown strategy or a failed build -
    # is rebuilt when the keyspace changes
    chk.rule('C22.cache', 'TokenMap.rebuild_keyspace refreshes an existing cache entry on `current is not None` (an empty map is an entry)')
    mm_ = chk.repo.mod('cassandra/metadata.py')
    rk = mm_.func('TokenMap.rebuild_keyspace')
    from ..guards import normalise_atom as _na
    conds = [n.test for n in ast.walk(rk) if isinstance(n, ast.If) and 'current' in src(n.test)]
    if not conds:
        raise AnalysisError('rebuild_keyspace: test on the cached entry not found')
    atoms_ = set()
    for t_ in conds:
        for x in ast.walk(t_):
            if isinstance(x, ast.Name) and x.id == 'current':
                from ..core import parent as _p
                par = _p(x)
                atoms_.add('is-none' if isinstance(par, ast.Compare) and any(isinstance(o, (ast.Is, ast.IsNot)) for o in par.ops) else 'truthiness')
    chk.judge(atoms_ == set(['is-none']), 'C22.cache', rk, 'the cached entry is tested with `is None` / `is not None` only',
              'the entry is tested for truthiness: a cached empty map is never regenerated after ALTER KEYSPACE, get_replicas keeps returning [] and the token-aware plan loses its replicas-first order')

    # the replica list comes from the token map's cache (one list object per token, shared by every plan and every policy):
    # shuffling is done on a copy
    chk.rule('C22.copy', 'TokenAwarePolicy shuffles a copy of the replica list, never the list object handed out by the metadata cache')
    pol_ = chk.repo.mod('cassandra/policies.py')
    mq = pol_.func('TokenAwarePolicy.make_query_plan')
    sh = [c_ for c_ in body_walk(mq) if isinstance(c_, ast.Call) and isinstance(c_.func, ast.Name) and c_.func.id == 'shuffle' and c_.args]
    if not sh:
        raise AnalysisError('TokenAwarePolicy.make_query_plan: shuffle call not found')
    for c_ in sh:
        a_ = c_.args[0]
        fresh = False
        if isinstance(a_, ast.Name):
            defs_ = [x for x in body_walk(mq) if isinstance(x, ast.Assign) and any(isinstance(t, ast.Name) and t.id == a_.id for t in x.targets) and x.lineno < c_.lineno]
            last = defs_[-1].value if defs_ else None
            fresh = last is not None and ((isinstance(last, ast.Call) and isinstance(last.func, ast.Name) and last.func.id in ('list', 'sorted', 'tuple')) or
                                          isinstance(last, (ast.List, ast.ListComp)) or
                                          (isinstance(last, ast.Subscript) and isinstance(last.slice, ast.Slice)) or
                                          (isinstance(last, ast.Call) and isinstance(last.func, ast.Attribute) and last.func.attr == 'copy'))
        chk.judge(fresh, 'C22.copy', c_, 'shuffle(%s) works on a copy made in this call' % src(a_),
                  'the list returned by get_replicas is the token map\'s cached object: shuffling it in place destroys the ring order for every later plan (also of policies that do '
                  'not shuffle) and lets two concurrent plans see a replica twice or not at all')

    # the replica maps are rebuilt from the keyspace registry: the new metadata has to be in it before the rebuild is triggered
    chk.rule('C22.fresh', 'Metadata._update_keyspace stores the new keyspace metadata in self.keyspaces before _keyspace_updated / _keyspace_added rebuild the token map')
    from ..cfg import CFG as _CFG22
    md_ = chk.repo.mod('cassandra/metadata.py')
    uk_ = md_.func('Metadata._update_keyspace')
    g22b = _CFG22(uk_)
    st_ = [n for n in g22b.stmt_nodes() if n.kind == 'stmt' and isinstance(n.ast, ast.Assign) and src(n.ast.targets[0]).startswith('self.keyspaces[')]
    rb_ = [n for n in g22b.stmt_nodes() if n.kind == 'stmt' and n.ast is not None and any(isinstance(x, ast.Call) and src(x.func) in ('self._keyspace_updated', 'self._keyspace_added') for x in ast.walk(n.ast))]
    if not st_ or not rb_:
        raise AnalysisError('Metadata._update_keyspace: registry store / rebuild calls not found')
    chk.judge(all(any(g22b.dominates(s_, r_) for s_ in st_) for r_ in rb_), 'C22.fresh', uk_, 'registry updated before the token map is rebuilt',
              'the token map is rebuilt (TokenMap.rebuild_keyspace reads metadata.keyspaces) before the new keyspace metadata is stored: after ALTER KEYSPACE the replica map keeps the old '
              'replication settings and token-aware plans start with stale replicas')
    # "a host" in a plan is an endpoint (address and port): two nodes that share an address are two hosts
    chk.rule('C22.identity', 'Host.__eq__ compares the endpoints of two Host objects (address and port), Host.__hash__ hashes the endpoint')
    from ..sem import flow_of as _flow22
    pl_ = chk.repo.mod('cassandra/pool.py')
    heq = pl_.func('Host.__eq__')
    g22, f22 = _flow22(heq)
    rets22 = [n for n in g22.stmt_nodes() if n.kind == 'return' and n.ast.value is not None]
    ok22 = bool(rets22)
    seen_host_arm = False
    for n in rets22:
        for fa, _c in f22.at(n):
            if fa.knows('isinstance(other, Host)') is True:
                seen_host_arm = True
                from ..sem import resolve as _res22
                if src(_res22(heq, n.ast.value)) not in ('self.endpoint == other.endpoint', 'other.endpoint == self.endpoint'):
                    ok22 = False
            elif fa.knows('isinstance(other, Host)') is None:
                ok22 = False
    chk.judge(ok22 and seen_host_arm, 'C22.identity', heq, 'two Host objects are equal iff their endpoints are',
              'Host.__eq__ no longer compares endpoints for two hosts (%s): nodes that share an address on different ports compare equal, so `host not in replicas` drops a distinct '
              'co-located node from the token-aware plan and replica lists lose co-located replicas' % [src(n.ast.value)[:50] for n in rets22])
    hh = pl_.func('Host.__hash__')
    chk.judge([src(r.value) for r in body_walk(hh) if isinstance(r, ast.Return)] == ['hash(self.endpoint)'], 'C22.identity', hh, 'Host.__hash__ = hash(self.endpoint)', 'hash and equality of Host disagree')


