"""C25 - host state changes keep a single reconnector and notify listeners once (structure)."""
import ast
from .. import sem as _sem25

from ..core import AnalysisError, src, body_walk, walk_no_nested, qual_of, decorators
from ..cfg import CFG, Flow
from ..locks import held, holds

CLUSTER = 'cassandra/cluster.py'
POOL = 'cassandra/pool.py'


def check(chk):
    chk.decides = ('the reconnection handler of a host is swapped atomically and every displaced handler is cancelled; the marked-down path reaches '
                   '_start_reconnector, which installs exactly one handler and starts it; removal installs none; a cancelled reconnector neither marks the '
                   'host up nor reschedules; the four entry points test is_shutdown first; _currently_handling_node_up is reset on every exit; every '
                   'host.set_up() in the cluster is followed by listener notification')
    chk.does_not_decide = 'event histories and thread schedules'
    chk.rule('C25.swap', 'get_and_set_reconnection_handler swaps under host.lock and returns the displaced handler; every call site cancels a displaced handler')
    chk.rule('C25.down', 'Cluster.on_down: the marked-down path notifies policies, control connection, sessions and listeners once and reaches _start_reconnector')
    chk.rule('C25.reconnector', '_start_reconnector installs one new handler (cancelling the old) and starts it; not for ignored hosts')
    chk.rule('C25.cancelled', '_ReconnectionHandler.run: a cancelled handler does nothing on entry and, after a successful connect, re-tests _cancelled before marking the host up')
    chk.rule('C25.flag', '_currently_handling_node_up is set under host.lock after the double-handling tests and reset on every exit')
    chk.rule('C25.notify', 'every host.set_up() reached from the up/add handlers is followed by notification of the listeners')
    chk.rule('C25.shutdown', 'on_up / on_down / on_add / on_remove return immediately after shutdown')
    cl, pool = chk.repo.mod(CLUSTER), chk.repo.mod(POOL)

    gs = pool.func('Host.get_and_set_reconnection_handler')
    body = [st for st in gs.body if not (isinstance(st, ast.Expr) and isinstance(st.value, ast.Constant))]
    good = len(body) == 1 and isinstance(body[0], ast.With) and src(body[0].items[0].context_expr) == 'self.lock'
    if good:
        b = [src(x) for x in body[0].body]
        good = b == ['old = self._reconnection_handler', 'self._reconnection_handler = new_handler', 'return old']
    chk.judge(good, 'C25.swap', gs, 'atomic swap under host.lock returning the displaced handler', 'the handler swap is no longer atomic / does not return the old handler')
    sites = []
    for q, f in cl.functions():
        for n in body_walk(f):
            if isinstance(n, ast.Call) and isinstance(n.func, ast.Attribute) and n.func.attr == 'get_and_set_reconnection_handler':
                sites.append((q, f, n))
    if len(sites) < 3:
        raise AnalysisError('get_and_set_reconnection_handler call sites not found (%d)' % len(sites))
    for q, f, call in sites:
        var = None
        for st in body_walk(f):
            if isinstance(st, ast.Assign) and st.value is call and isinstance(st.targets[0], ast.Name):
                var = st.targets[0].id
        good = var is not None and any(isinstance(n, ast.If) and src(n.test) == var and any('%s.cancel()' % var in src(x) for x in n.body) for n in body_walk(f))
        chk.judge(good, 'C25.swap', call, '%s: displaced handler is cancelled' % q, 'the handler displaced by %s keeps running: two reconnection series for one host' % src(call)[:60])

    # ---- on_down
    od = cl.func('Cluster.on_down')
    g = CFG(od)
    want = ['self.profile_manager.on_down', 'self.control_connection.on_down', 'session.on_down', 'listener.on_down', 'self._start_reconnector']

    def step(node, c):
        if node.ast is not None and node.kind in ('stmt', 'for_iter'):
            tgt = node.ast if node.kind == 'stmt' else None
            if tgt is not None:
                for n in walk_no_nested(tgt):
                    if isinstance(n, ast.Call) and src(n.func) in want + ['host.set_down'] and src(n.func) not in c:
                        c = c + (src(n.func),)
        return c
    fl = Flow(g, (), step)
    bad = []
    for fa, c in fl.at(g.exit):
        # a path that leaves before host.set_down() made no transition (cluster shut down, or the down signal is discounted because pools are still open)
        if fa.knows('self.is_shutdown') is True or 'host.set_down' not in c:
            if [x for x in c if x != 'host.set_down']:
                bad.append(('a path that does not mark the host down notified %s' % list(c), fa))
            continue
        c = tuple(x for x in c if x != 'host.set_down')
        early = fa.knows('host.is_currently_reconnecting()') is True or (fa.knows('was_up') is False and fa.knows('expect_host_to_be_down') is False)
        if early:
            if c:
                bad.append(('early-return path notified %s' % list(c), fa))
            continue
        # loops may run zero times (no session / no listener): require the unconditional ones and order
        need = ['self.profile_manager.on_down', 'self.control_connection.on_down', 'self._start_reconnector']
        got = [x for x in c if x in need]
        if got != need:
            bad.append(('marked-down path reaches only %s' % list(c), fa))
    chk.judge(not bad, 'C25.down', od, 'on_down: marked-down path -> policies, control connection, [sessions], [listeners], _start_reconnector',
              '; '.join(sorted(set(b[0] for b in bad))))
    s = src(od)
    chk.judge('host.set_down()' in s and holds([n for n in body_walk(od) if isinstance(n, ast.Call) and src(n.func) == 'host.set_down'][0], ('host',)), 'C25.down', od,
              'host.set_down() under host.lock', 'host marked down outside its lock')
    chk.judge("self._start_reconnector(host, is_host_addition)" in s, 'C25.down', od, '_start_reconnector(host, is_host_addition)', 'reconnector started with other arguments')
    chk.judge('run_in_executor' in decorators(od), 'C25.down', od, 'on_down runs on the executor', 'on_down no longer deferred to the executor', nontrivial=False)

    # ---- _start_reconnector
    sr = cl.func('Cluster._start_reconnector')
    s = src(sr)
    creates = [n for n in body_walk(sr) if isinstance(n, ast.Call) and src(n.func) == '_HostReconnectionHandler']
    good = len(creates) == 1 and 'old_reconnector = host.get_and_set_reconnection_handler(reconnector)' in s and s.count('reconnector.start()') == 1 \
        and s.index('get_and_set_reconnection_handler(reconnector)') < s.index('reconnector.start()')
    chk.judge(good, 'C25.reconnector', sr, 'one handler created, installed (old one cancelled), then started', '_start_reconnector creates/starts %d handlers or starts before installing' % len(creates))
    if creates:
        args = [src(a) for a in creates[0].args]
        kw = dict((k.arg, src(k.value)) for k in creates[0].keywords)
        chk.judge(args[:5] == ['host', 'conn_factory', 'is_host_addition', 'self.on_add', 'self.on_up'] and 'host.get_and_set_reconnection_handler' in args and kw.get('new_handler') == 'None',
                  'C25.reconnector', creates[0], 'handler wired to on_add/on_up and to clear itself (new_handler=None) on success', 'reconnector wiring changed: %s %s' % (args, kw))
    first = [st for st in sr.body if isinstance(st, ast.If)][0]
    chk.judge(src(first.test) == 'self.profile_manager.distance(host) == HostDistance.IGNORED' and isinstance(first.body[0], ast.Return), 'C25.reconnector', sr,
              'ignored hosts are not reconnected', 'ignored-host guard changed')
    chk.judge('schedule = self.reconnection_policy.new_schedule()' in s, 'C25.reconnector', sr, 'fresh schedule from the reconnection policy', 'schedule source changed')
    orm = cl.func('Cluster.on_remove')
    s = src(orm)
    chk.judge('host.get_and_set_reconnection_handler(None)' in s and 'host.set_down()' in s and 'self._start_reconnector' not in s, 'C25.reconnector', orm,
              'on_remove installs no handler (and cancels the current one)', 'a removed host can be reconnected')

    # ---- cancelled handler
    run = pool.func('_ReconnectionHandler.run')
    g = CFG(run, may_raise=lambda n: ['Exception'] if any(isinstance(x, ast.Call) and src(x.func) == 'self.try_reconnect' for x in walk_no_nested(n)) else [])

    def step_r(node, c):
        if node.ast is not None and node.kind == 'stmt':
            for n in walk_no_nested(node.ast):
                if isinstance(n, ast.Call) and src(n.func) == 'self.try_reconnect':
                    return 'connected'
        return c

    def edge_r(node, succ, lab, c):
        if c == 'connected' and lab is not None and lab[0] in ('T', 'F') and src(lab[1]) == 'self._cancelled':
            return 'retested-%s' % ('cancelled' if lab[0] == 'T' else 'live')
        if lab is not None and lab[0] == 'exc':
            return 'failed'
        return c
    fl = Flow(g, 'start', step_r, edge=edge_r)
    ups = [n for n in g.stmt_nodes() if n.kind == 'stmt' and ('self.on_reconnection(' in src(n.ast) or 'self.callback(' in src(n.ast))]
    if not ups:
        raise AnalysisError('_ReconnectionHandler.run: success actions not found')
    states = set(c for n in ups for _f, c in fl.at(n))
    chk.judge(states == set(['retested-live']), 'C25.cancelled', run, 'after a successful connect _cancelled is re-tested before on_reconnection / callback',
              'a reconnector cancelled while its connect was in flight (host removed, or superseded by a newer handler) still marks the host up and clears the handler (states: %s)' % sorted(states))
    first = [st for st in run.body if not (isinstance(st, ast.Expr) and isinstance(st.value, ast.Constant))][0]
    chk.judge(isinstance(first, ast.If) and src(first.test) == 'self._cancelled' and isinstance(first.body[0], ast.Return), 'C25.cancelled', run, 'a cancelled handler does nothing when its timer fires', 'entry test on _cancelled is gone')
    st_ = pool.func('_ReconnectionHandler.start')
    first = [st for st in st_.body if not (isinstance(st, ast.Expr) and isinstance(st.value, ast.Constant))][0]
    chk.judge(isinstance(first, ast.If) and src(first.test) == 'self._cancelled', 'C25.cancelled', st_, 'a handler cancelled before start schedules nothing', 'start() ignores cancellation')
    hr = pool.func('_HostReconnectionHandler.on_reconnection')
    s = src(hr)
    chk.judge('self.on_add(self.host)' in s and 'self.on_up(self.host)' in s and 'if self.is_host_addition' in s, 'C25.cancelled', hr,
              'successful reconnection -> on_add for a host addition, else on_up', 'reconnection success handling changed')
    chk.judge('conn.close()' in src(run) and 'finally' in src(run), 'C25.cancelled', run, 'the probe connection is always closed', 'probe connection may leak')

    # ---- handling flag
    ou = cl.func('Cluster.on_up')
    g = CFG(ou, may_raise=lambda n: ['Exception'] if any(isinstance(x, ast.Call) and src(x.func) in ('self._prepare_all_queries', 'session.add_or_renew_pool', 'self.profile_manager.on_up',
                                                                                                       'self.control_connection.on_up') for x in walk_no_nested(n)) else [])

    # registration of the callback for every created future: a loop over (a snapshot of) `futures`, directly in the body that created them
    registers_all = any(isinstance(lp, ast.For) and src(lp.iter) in ('tuple(futures)', 'list(futures)', 'futures') and
                        any(isinstance(x, ast.Call) and src(x.func) == 'future.add_done_callback' for x in ast.walk(lp)) and
                        not any(isinstance(x, (ast.If, ast.Try)) for x in lp.body) for lp in body_walk(ou))

    def step_f(node, c):
        if node.ast is not None and node.kind == 'stmt' and isinstance(node.ast, ast.Assign) and src(node.ast.targets[0]) == 'host._currently_handling_node_up':
            return 'set' if src(node.ast.value) == 'True' else 'reset'
        if c == 'set' and node.ast is not None and node.kind == 'stmt' and 'future.add_done_callback(callback)' in src(node.ast):
            return 'handed'      # _on_up_future_completed resets it
        if c == 'set' and registers_all and node.ast is not None and node.kind == 'stmt' and src(node.ast) == 'have_future = True':
            # a future was created: the registration loop over the (then non-empty) set hands the flag to the callback
            return 'handed'
        return c
    fl = Flow(g, 'clear', step_f)
    bad = [c for n in (g.exit, g.raise_exit) for _f, c in fl.at(n) if c == 'set']
    chk.judge(not bad, 'C25.flag', ou, 'on_up: _currently_handling_node_up reset (or handed to the pool-future callback) on every exit', 'an exit of on_up leaves the host permanently "being handled": it can never be marked up again')
    sets = [st for st in body_walk(ou) if isinstance(st, ast.Assign) and src(st.targets[0]) == 'host._currently_handling_node_up']
    chk.judge(all(holds(st, ('host',)) for st in sets), 'C25.flag', ou, 'flag written under host.lock', 'flag written outside host.lock')
    g2 = CFG(ou)
    fl2 = Flow(g2, 0, lambda n, c: c)
    setn = [n for n in g2.stmt_nodes() if n.kind == 'stmt' and src(n.ast) == 'host._currently_handling_node_up = True']
    chk.judge(len(setn) == 1 and all(fa.knows('host._currently_handling_node_up') is False and fa.knows('host.is_up') is False for fa, _ in fl2.at(setn[0])), 'C25.flag', ou,
              'flag set only when nobody else handles the host and it is not already up', 'double handling / already-up tests no longer guard the flag')
    fc = cl.func('Cluster._on_up_future_completed')
    fin = [n for n in body_walk(fc) if isinstance(n, ast.Try) and n.finalbody]
    chk.judge(len(fin) == 1 and 'host._currently_handling_node_up = False' in ' '.join(src(x) for x in fin[0].finalbody), 'C25.flag', fc,
              '_on_up_future_completed resets the flag in finally', 'flag not reset when pool creation fails')
    g3 = CFG(fc)
    fl3 = Flow(g3, 'held', lambda n, c: 'reset' if (n.kind == 'stmt' and src(n.ast) == 'host._currently_handling_node_up = False') else c)
    outs = [(fa, c) for fa, c in fl3.at(g3.exit) if fa.knows('futures') is not True]
    bad3 = [fl3.witness(g3.exit, (fa, c))[-4:] for fa, c in outs if c != 'reset']
    chk.judge(bool(outs) and not bad3, 'C25.flag', fc, 'once the last pool future completed, every exit (success, failed pool, exception result) resets the flag (%d exit states)' % len(outs),
              'an exit of _on_up_future_completed leaves _currently_handling_node_up set (%s): every later on_up for this host returns at once, the reconnector has been cleared, and the node stays down for good' % (bad3[:1],))
    s = src(fc)
    chk.judge(s.count('self._cleanup_failed_on_up_handling(host)') == 2, 'C25.flag', fc, 'failed pool creation cleans up (pools removed, reconnector restarted)', 'failed on_up handling is not cleaned up')
    cu = cl.func('Cluster._cleanup_failed_on_up_handling')
    # the policies learn that the host is up before its pools are requested: add_or_renew_pool asks the policy for the host's distance
    chk.rule('C25.order', 'Cluster.on_up: profile_manager.on_up(host) precedes every session.add_or_renew_pool(host, ...) on all paths')
    from ..cfg import CFG as _CFG25
    ou_ = cl.func('Cluster.on_up')
    g25 = _CFG25(ou_)
    pm_ = [n for n in g25.stmt_nodes() if n.kind == 'stmt' and n.ast is not None and any(isinstance(x, ast.Call) and src(x.func) == 'self.profile_manager.on_up' for x in ast.walk(n.ast))]
    ar_ = [n for n in g25.stmt_nodes() if n.kind == 'stmt' and n.ast is not None and any(isinstance(x, ast.Call) and isinstance(x.func, ast.Attribute) and x.func.attr == 'add_or_renew_pool' for x in ast.walk(n.ast))]
    if not pm_ or not ar_:
        raise AnalysisError('Cluster.on_up: profile_manager.on_up / add_or_renew_pool not found')
    chk.judge(all(any(g25.dominates(p_, a_) for p_ in pm_) for a_ in ar_), 'C25.order', ou_, 'policies are told the host is up before pools are requested',
              'add_or_renew_pool is asked while the load-balancing policies still consider the host down: a policy that ignores down hosts (DC-aware, remote DC) answers IGNORED, no pool is '
              'created, and the host is then marked up - and planned - without a pool in any session')
    chk.judge('self._start_reconnector(host, is_host_addition=False)' in src(cu) and 'session.remove_pool(host)' in src(cu), 'C25.flag', cu,
              'cleanup restarts the reconnector', 'cleanup no longer restarts reconnection')

    # ---- set_up followed by listeners
    for q in ('Cluster.on_up', 'Cluster._on_up_future_completed', 'Cluster._finalize_add'):
        f = cl.func(q)
        ups = [n for n in body_walk(f) if isinstance(n, ast.Call) and src(n.func) == 'host.set_up']
        if not ups:
            raise AnalysisError('%s: host.set_up() not found' % q)
        g = CFG(f)

        def step_n(node, c):
            if node.ast is not None and node.kind == 'stmt':
                for n in walk_no_nested(node.ast):
                    if isinstance(n, ast.Call) and src(n.func) == 'host.set_up':
                        return 'up'
            if node.kind == 'for_iter' and src(node.ast.iter) == 'self.listeners' and c == 'up':
                if any(isinstance(x, ast.Call) and src(x.func) in ('listener.on_up', 'listener.on_add') for x in ast.walk(node.ast)):
                    return 'notified'
            return c
        fl = Flow(g, 'none', step_n)
        bad = [c for _f, c in fl.at(g.exit) if c == 'up']
        chk.judge(not bad, 'C25.notify', f, '%s: host.set_up() is followed by listener notification' % q,
                  'the host is marked up but registered listeners are never told (this transition is invisible to them)')
    chk.judge('host.set_up()' in src(cl.func('Cluster._on_up_future_completed')) and 'all(results)' in src(cl.func('Cluster._on_up_future_completed')), 'C25.notify',
              cl.func('Cluster._on_up_future_completed'), 'host marked up only when every session produced a pool', 'host marked up although a pool could not be created')

    # ---- shutdown guards
    for q in ('Cluster.on_up', 'Cluster.on_down', 'Cluster.on_add', 'Cluster.on_remove'):
        f = cl.func(q)
        first = [st for st in f.body if not (isinstance(st, ast.Expr) and isinstance(st.value, ast.Constant))][0]
        chk.judge(isinstance(first, ast.If) and src(first.test) == 'self.is_shutdown' and isinstance(first.body[0], ast.Return), 'C25.shutdown', f,
                  '%s returns at once after shutdown' % q, '%s acts after shutdown' % q)

    # the completion callback of the pool futures decides "all pools are there" by looking at the set of outstanding futures:
    # it must not be able to run before that set is complete
    chk.rule('C25.register', 'Cluster.on_up / on_add register the done-callback of the pool futures only after every future is in the set it inspects; loops over that set use a snapshot; '
                             'the direct (no future) completion is decided by a flag, not by the set the callbacks empty')
    for hname in ('Cluster.on_up', 'Cluster.on_add'):
        ou = cl.func(hname)
        creating = [lp for lp in body_walk(ou) if isinstance(lp, ast.For) and any(isinstance(c_, ast.Call) and isinstance(c_.func, ast.Attribute) and c_.func.attr == 'add_or_renew_pool' for c_ in ast.walk(lp))]
        if not creating:
            raise AnalysisError('%s: pool creation loop not found' % hname)
        early = [c_ for lp in creating for c_ in ast.walk(lp) if isinstance(c_, ast.Call) and isinstance(c_.func, ast.Attribute) and c_.func.attr == 'add_done_callback']
        regs = [c_ for c_ in body_walk(ou) if isinstance(c_, ast.Call) and isinstance(c_.func, ast.Attribute) and c_.func.attr == 'add_done_callback']
        chk.judge(bool(regs) and not early, 'C25.register', ou, '%s: add_done_callback after the loop that fills `futures`' % hname,
                  'the callback is registered inside the loop that creates the pool futures: a future that is already done runs the callback at once, while the set of '
                  'outstanding futures is still incomplete - the host is marked up / announced (and listeners are told) before the other sessions have their pools, and once more '
                  'when the next future completes')
        live_iter = [lp for lp in body_walk(ou) if isinstance(lp, ast.For) and src(lp.iter) == 'futures']
        chk.judge(not live_iter, 'C25.register', ou, '%s iterates tuple(futures), never the live set' % hname, 'the live set is iterated while callbacks discard from it (RuntimeError: Set changed size during iteration)')
        # the fall-back for "no session had a pool to create" must not look at the set the callbacks empty
        direct = [n for n in body_walk(ou) if isinstance(n, ast.If) and any(isinstance(c_, ast.Call) and src(c_.func) in ('self._finalize_add', 'self._on_up_future_completed') or
                                                                           (isinstance(c_, ast.Call) and isinstance(c_.func, ast.Attribute) and c_.func.attr in ('set_up',)) for st_ in n.body for c_ in ast.walk(st_))
                  and n.lineno > creating[-1].lineno]
        for d in direct:
            reads_set = any(isinstance(x, ast.Name) and x.id == 'futures' for x in ast.walk(d.test))
            chk.judge(not reads_set, 'C25.register', d, '%s: the direct completion is guarded by a flag (%s)' % (hname, src(d.test)),
                      'the direct completion tests the set of outstanding futures (%s): a future that completed as soon as its callback was attached has emptied the set, so the host is '
                      'finalised by the callback and then once more here - listeners see the new host twice' % src(d.test))
    _forward_rule(chk)


def _forward_rule(chk):
    """signal_connection_failure is how pools and the add/up handlers report a failed connection; what the caller knows about the host's
    expected state must reach on_down (which decides, from it, whether a host that was never up gets a reconnector)"""
    chk.rule('C25.expect', 'Cluster.signal_connection_failure forwards host, is_host_addition and expect_host_to_be_down to on_down; on_down starts no reconnector only when the host was not up and was not expected to be down (or is already reconnecting)')
    cl = chk.repo.mod('cassandra/cluster.py')
    scf = cl.func('Cluster.signal_connection_failure')
    od = cl.func('Cluster.on_down')
    calls = [c for c in body_walk(scf) if isinstance(c, ast.Call) and src(c.func) == 'self.on_down']
    if len(calls) != 1:
        raise AnalysisError('signal_connection_failure: self.on_down call not found')
    params = [a.arg for a in od.args.args][1:]
    passed = dict(zip(params, [src(a) for a in calls[0].args]))
    passed.update((k.arg, src(k.value)) for k in calls[0].keywords if k.arg)
    want = dict((p_, p_) for p_ in ('host', 'is_host_addition', 'expect_host_to_be_down'))
    chk.judge(all(passed.get(k) == v for k, v in want.items()), 'C25.expect', calls[0], 'on_down(host, is_host_addition, expect_host_to_be_down)',
              'on_down is called with %s: the caller\'s expect_host_to_be_down is dropped, so a newly discovered host whose pool cannot be opened (is_up None) is marked down '
              'without a reconnector and never comes back' % passed)
    # a pool that cannot be opened for a host that is not up yet (new host, initial connect): the failure is reported with expect_host_to_be_down=True so that
    # on_down does not take the host for "already down, nothing to do" and starts its reconnector
    arp = cl.func('Session.add_or_renew_pool')
    sig = [c_ for c_ in body_walk(arp, nested=True) if isinstance(c_, ast.Call) and isinstance(c_.func, ast.Attribute) and c_.func.attr == 'signal_connection_failure']
    from ..core import parent as _par25
    generic = []
    for c_ in sig:
        p_ = _par25(c_)
        while p_ is not None and not isinstance(p_, ast.ExceptHandler):
            p_ = _par25(p_)
        if p_ is not None and p_.type is not None and src(p_.type) == 'Exception':
            generic.append(c_)
    if len(generic) != 1:
        raise AnalysisError('Session.add_or_renew_pool: signal_connection_failure in the `except Exception` arm not found (%d)' % len(generic))
    kw25 = dict((k.arg, src(k.value)) for k in generic[0].keywords if k.arg)
    pos25 = [src(a) for a in generic[0].args]
    chk.judge(kw25.get('expect_host_to_be_down') == 'True' or (len(pos25) >= 4 and pos25[3] == 'True'), 'C25.expect', generic[0],
              'add_or_renew_pool: a pool that cannot be opened is reported with expect_host_to_be_down=True',
              'the failure of a new host\'s pool is reported without expect_host_to_be_down: on_down sees a host that was never up, returns early, and the host is left down '
              'without a reconnector - it never comes back')
    g, fl = _sem25.flow_of(od)
    early = [n for n in g.stmt_nodes() if n.kind == 'return' and any(fa.knows('was_up') is False for fa, _c in fl.at(n))]
    ok = bool(early) and all(all((fa.knows('was_up') is False and fa.knows('expect_host_to_be_down') is False) or fa.knows('host.is_currently_reconnecting()') is True or
                                 fa.knows('self.is_shutdown') is True for fa, _c in fl.at(n)) for n in early)
    chk.judge(ok, 'C25.expect', od, 'on_down gives up early only for a host that was not up and not expected down, or that is already reconnecting', 'the early exit of on_down changed')
