"""C20 - switching the session keyspace is applied everywhere or reported."""
import ast

from ..core import AnalysisError, src, body_walk, walk_no_nested, qual_of
from ..cfg import CFG, Flow
from ..locks import holds

CLUSTER = 'cassandra/cluster.py'
POOL = 'cassandra/pool.py'
CONN = 'cassandra/connection.py'


def nested_defs(func):
    return dict((n.name, n) for n in body_walk(func) if isinstance(n, ast.FunctionDef))


def calls_cb(fn, cb):
    return [n for n in body_walk(fn) if isinstance(n, ast.Call) and isinstance(n.func, ast.Name) and n.func.id == cb]


def completion_flow(func, cb, completing):
    """Flow: True once cb was called or handed (directly or via a completing nested function) to a callee."""
    g = CFG(func)

    def step(node, c):
        if node.ast is not None and node.kind in ('stmt', 'return', 'for_iter'):
            tgt = node.ast if node.kind != 'for_iter' else node.ast.iter
            for n in walk_no_nested(tgt):
                if isinstance(n, ast.Call):
                    if isinstance(n.func, ast.Name) and n.func.id == cb:
                        return True
                    for a in list(n.args) + [k.value for k in n.keywords]:
                        if isinstance(a, ast.Name) and (a.id == cb or a.id in completing):
                            return True
        return c
    return g, Flow(g, False, step)


def check(chk):
    chk.decides = ('every function of the keyspace-switch callback chain calls its completion callback, or hands it on, on every path; the per-host errors '
                   'accumulated by the session are what the final callback reports; each pool records the new keyspace on every path (also when it has no '
                   'connection) and new connections select the pool\'s keyspace before they are published; the connection records the keyspace only after '
                   'the server confirmed it')
    chk.does_not_decide = 'completion orders across pools'
    chk.rule('C20.complete', 'on every path the completion callback is called or delegated (directly, or through a nested completion function)')
    chk.rule('C20.report', 'the value reported by the final callback is the accumulator that the error arm fills')
    chk.rule('C20.record', 'both pools store the new keyspace on every path of _set_keyspace_for_all_conns; the session stores it under its lock first')
    chk.rule('C20.newconn', 'a replacement / additional connection selects the pool keyspace before it is published')
    chk.rule('C20.confirm', 'Connection.set_keyspace_async: keyspace recorded only in the success arm; every arm of process_result completes')
    cl, pool, conn = chk.repo.mod(CLUSTER), chk.repo.mod(POOL), chk.repo.mod(CONN)

    # ---- Session
    sk = cl.func('Session._set_keyspace_for_all_pools')
    nd = nested_defs(sk)
    if 'pool_finished_setting_keyspace' not in nd:
        raise AnalysisError('Session._set_keyspace_for_all_pools: nested completion function not found')
    inner = nd['pool_finished_setting_keyspace']
    g, fl = completion_flow(sk, 'callback', set(nd))
    # the loop over pools delegates per pool; the no-pool path calls directly
    bad = [st for st in fl.at(g.exit) if not st[1] and st[0].knows('remaining_callbacks') is False]
    chk.judge(not bad, 'C20.complete', sk, 'Session._set_keyspace_for_all_pools: no pools -> callback called', 'with no pools the switch never completes')
    loops = [n for n in body_walk(sk) if isinstance(n, ast.For) and any(isinstance(x, ast.Call) and isinstance(x.func, ast.Attribute) and x.func.attr == '_set_keyspace_for_all_conns'
                                                                        for x in ast.walk(n))]
    good = False
    for l in loops:
        for x in ast.walk(l):
            if isinstance(x, ast.Call) and isinstance(x.func, ast.Attribute) and x.func.attr == '_set_keyspace_for_all_conns':
                good = [src(a) for a in x.args] == ['keyspace', 'pool_finished_setting_keyspace']
    chk.judge(good, 'C20.complete', sk, 'every pool is asked with (keyspace, pool_finished_setting_keyspace)', 'pools are not all asked / with other arguments')
    # pools iterated = pools counted
    s = src(sk)
    chk.judge('remaining_callbacks = set(self._pools.values())' in s and 'in tuple(self._pools.values())' in s, 'C20.complete', sk,
              'the set awaited and the set asked are both the session\'s pools', 'pools awaited and pools asked differ')
    cbs = calls_cb(inner, 'callback')
    acc = None
    for st in body_walk(inner):
        if isinstance(st, ast.Assign) and isinstance(st.targets[0], ast.Subscript) and src(st.targets[0].slice) == 'pool.host':
            acc = src(st.targets[0].value)
    chk.judge(len(cbs) == 1 and acc is not None and [src(a) for a in cbs[0].args] == [acc], 'C20.report', inner,
              'final callback reports the accumulated per-host errors (%s)' % acc,
              'the error arm fills %r but the completion reports %s: a failure on any pool but the last one is reported as success'
              % (acc, [src(a) for c in cbs for a in c.args]))
    gi = CFG(inner)
    fli = Flow(gi, 0, lambda n, c: c)
    cn = [n for n in gi.stmt_nodes() if n.kind == 'stmt' and cbs and any(x is cbs[0] for x in walk_no_nested(n.ast))]
    chk.judge(bool(cn) and all(fa.knows('remaining_callbacks') is False for fa, _ in fli.at(cn[0])) and 'remaining_callbacks.remove(pool)' in src(inner), 'C20.complete', inner,
              'completion fires when the last pool has answered', 'completion no longer tied to the last pool answering')
    chk.judge(any(isinstance(st, ast.If) and src(st.test) == 'host_errors' for st in inner.body), 'C20.report', inner, 'a pool\'s errors are recorded when it reports any', 'pool errors are not recorded')
    top = [st for st in sk.body if isinstance(st, ast.With)]
    chk.judge(bool(top) and 'self.keyspace = keyspace' in src(top[0]) and 'self._lock' in src(top[0].items[0].context_expr), 'C20.record', sk,
              'session.keyspace updated under the session lock before pools are asked', 'session keyspace no longer recorded first under the lock')

    # ---- pools
    for cls in ('HostConnection', 'HostConnectionPool'):
        f = pool.func('%s._set_keyspace_for_all_conns' % cls)
        nd = nested_defs(f)
        if 'connection_finished_setting_keyspace' not in nd:
            raise AnalysisError('%s._set_keyspace_for_all_conns: nested completion not found' % cls)
        inner = nd['connection_finished_setting_keyspace']
        g, fl = completion_flow(f, 'callback', set(nd))
        bad = []
        for st in fl.at(g.exit):
            if st[1]:
                continue
            bad.append(st)
        # legacy pool: the path that iterates zero connections after the emptiness test is infeasible (remaining_callbacks is the same set)
        bad = [b for b in bad if not (cls == 'HostConnectionPool' and b[0].knows('remaining_callbacks') is True)]
        chk.judge(not bad, 'C20.complete', f, '%s._set_keyspace_for_all_conns: callback called or delegated on every path' % cls,
                  'a path returns without completing: the session-level switch never finishes (%s)' % (' | '.join(fl.witness(g.exit, bad[0])[-5:]) if bad else ''))
        chk.judge(len(calls_cb(inner, 'callback')) >= 1 and 'self.return_connection(conn)' in src(inner), 'C20.complete', inner,
                  '%s: per-connection completion returns the connection and completes' % cls, 'per-connection completion changed')
        # record on every path
        g2 = CFG(f)
        fl2 = Flow(g2, False, lambda n, c: True if (n.ast is not None and n.kind == 'stmt' and isinstance(n.ast, ast.Assign) and src(n.ast.targets[0]) == 'self._keyspace'
                                                    and src(n.ast.value) == 'keyspace') else c)
        bad = [st for st in fl2.at(g2.exit) if not st[1]]
        chk.judge(not bad, 'C20.record', f, '%s: self._keyspace = keyspace on every path' % cls,
                  'when the pool has no connection (or is shut down) the new keyspace is not recorded: the connection opened next keeps the old keyspace although '
                  'the switch reported success')
        if cls == 'HostConnectionPool':
            s = src(inner)
            chk.judge('errors.append(error)' in s and 'remaining_callbacks.remove(conn)' in s and 'callback(self, errors)' in s, 'C20.report', inner,
                      'legacy pool accumulates connection errors and reports them', 'legacy pool error accumulation changed')
        else:
            ea = [n for n in body_walk(inner) if isinstance(n, ast.Assign) and src(n.targets[0]) == 'errors']
            okv = False
            if len(ea) == 1:
                from ..fold import Folder, Unfoldable
                try:
                    fo = Folder(mod_of(inner))
                    okv = fo.eval(ea[0].value, env={'error': None}) == [] and fo.eval(ea[0].value, env={'error': 'E'}) == ['E']
                except Unfoldable:
                    okv = False
            chk.judge('callback(self, errors)' in src(inner) and okv, 'C20.report', inner,
                      'v3 pool reports the connection\'s error', 'v3 pool no longer reports the connection error')

    # ---- new connections take the pool keyspace before publication
    for q, pub in (('HostConnection._replace', 'self._connection'), ('HostConnectionPool._add_conn_if_under_max', 'self._connections')):
        f = pool.func(q)
        g = CFG(f)

        # what the new connection has selected: 'fresh' (nothing yet), 'direct' (self._keyspace itself), ('name', v) (the value of local v, not reassigned since), 'stale' / 'other'
        def step(node, c):
            if node.ast is not None and node.kind == 'stmt':
                for n in walk_no_nested(node.ast):
                    if isinstance(n, ast.Call) and src(n.func) == 'conn.set_keyspace_blocking' and n.args:
                        a0 = n.args[0]
                        return 'direct' if src(a0) in ('self._keyspace', 'self._session.keyspace') else (('name', a0.id) if isinstance(a0, ast.Name) else 'other')
                if isinstance(node.ast, ast.Assign) and isinstance(c, tuple) and any(isinstance(t, ast.Name) and t.id == c[1] for t in node.ast.targets):
                    return 'stale'
            return c
        fl = Flow(g, 'fresh', step)
        pubs = [n for n in g.stmt_nodes() if n.kind == 'stmt' and isinstance(n.ast, ast.Assign) and src(n.ast.targets[0]) == pub]
        if not pubs:
            raise AnalysisError('%s: publication not found' % q)
        ok = True
        locals_ = sorted(set(x.id for x in ast.walk(f) if isinstance(x, ast.Name)))
        for p in pubs:
            for fa, c in fl.at(p):
                if c == 'direct' or fa.knows('self._keyspace') is False:
                    continue
                # the pool keyspace equals local v, and v is what the connection selected (or v is None and nothing was selected)
                same = [v for v in locals_ if fa.knows('self._keyspace == %s' % v) is True or fa.knows('%s == self._keyspace' % v) is True]
                if any(c == ('name', v) or (c == 'fresh' and fa.knows('%s is None' % v) is True) for v in same):
                    continue
                ok = False
        chk.judge(ok, 'C20.newconn', f, '%s: keyspace selected before the connection is published (when the pool has one)' % q,
                  'a new connection can be handed out before the pool\'s keyspace was selected on it')

    # ---- the constructors select one snapshot of the session keyspace on every connection and record exactly that value
    chk.rule('C20.snapshot', 'pool constructors: self._keyspace = session.keyspace is taken once, before any set_keyspace_blocking, and it is what every connection is switched to')
    from ..cfg import CFG as _CFG20
    for cls_ in ('HostConnection', 'HostConnectionPool'):
        ini = pool.func('%s.__init__' % cls_)
        g20 = _CFG20(ini)
        rec = [n for n in g20.stmt_nodes() if n.kind == 'stmt' and isinstance(n.ast, ast.Assign) and src(n.ast.targets[0]) == 'self._keyspace']
        sks = [(n, x) for n in g20.stmt_nodes() if n.kind == 'stmt' and n.ast is not None for x in ast.walk(n.ast) if isinstance(x, ast.Call) and isinstance(x.func, ast.Attribute) and x.func.attr == 'set_keyspace_blocking']
        oks = len(rec) == 1 and src(rec[0].ast.value) == 'session.keyspace' and bool(sks) and all([src(a_) for a_ in x.args] == ['self._keyspace'] and g20.dominates(rec[0], n) for n, x in sks)
        chk.judge(oks, 'C20.snapshot', ini, '%s.__init__: one snapshot of session.keyspace, recorded first and selected on every connection' % cls_,
                  'the constructor reads session.keyspace again for each connection (or records it afterwards): a USE that completes while the pool is being built leaves earlier connections on the old '
                  'keyspace while the pool records the new one - add_or_renew_pool\'s catch-up then sees nothing to repair')
    # ---- legacy pool: set_keyspace_async may call back inline (nothing to do on that connection): the set of connections still awaited must be complete before the first call
    chk.rule('C20.awaited', 'HostConnectionPool._set_keyspace_for_all_conns: the awaited set is built from the whole collection the loop iterates, before the loop; it only shrinks afterwards')
    lk = pool.func('HostConnectionPool._set_keyspace_for_all_conns')
    inner_l = nested_defs(lk).get('connection_finished_setting_keyspace')
    if inner_l is None:
        raise AnalysisError('HostConnectionPool._set_keyspace_for_all_conns: completion function not found')
    rem = [c_ for c_ in body_walk(inner_l) if isinstance(c_, ast.Call) and isinstance(c_.func, ast.Attribute) and c_.func.attr in ('remove', 'discard') and isinstance(c_.func.value, ast.Name)]
    loops_l = [n for n in lk.body if isinstance(n, ast.For) and any(isinstance(x, ast.Call) and isinstance(x.func, ast.Attribute) and x.func.attr == 'set_keyspace_async' for x in ast.walk(n))]
    loops_l += [n for st_ in lk.body if isinstance(st_, ast.If) for n in st_.body + st_.orelse if isinstance(n, ast.For)
                and any(isinstance(x, ast.Call) and isinstance(x.func, ast.Attribute) and x.func.attr == 'set_keyspace_async' for x in ast.walk(n))]
    if len(rem) != 1 or len(loops_l) != 1:
        raise AnalysisError('HostConnectionPool._set_keyspace_for_all_conns: awaited set / issuing loop not recognised')
    S = rem[0].func.value.id
    defs_s = [st_ for st_ in body_walk(lk) if isinstance(st_, ast.Assign) and len(st_.targets) == 1 and src(st_.targets[0]) == S]
    grows = [c_ for c_ in ast.walk(lk) if isinstance(c_, ast.Call) and isinstance(c_.func, ast.Attribute) and src(c_.func.value) == S and c_.func.attr in ('add', 'update')]
    oka = len(defs_s) == 1 and isinstance(defs_s[0].value, ast.Call) and src(defs_s[0].value.func) in ('set', 'list') and len(defs_s[0].value.args) == 1 \
        and src(defs_s[0].value.args[0]) == src(loops_l[0].iter) and defs_s[0].lineno < loops_l[0].lineno and not grows
    chk.judge(oka, 'C20.awaited', lk, 'the awaited set %s = set(%s) is complete before the loop over %s starts issuing USE' % (S, src(loops_l[0].iter), src(loops_l[0].iter)),
              'the set of connections still awaited is filled while the requests are issued (%s): a connection that is already on the keyspace calls back inline, finds the set empty and reports '
              'the switch complete - without errors - while the USE of the remaining connections has not even been sent; a later failure is lost (and its callback finds its connection missing)'
              % ([src(c_)[:40] for c_ in grows] or [src(d_)[:60] for d_ in defs_s]))

    # ---- a USE that arrives while a replacement / additional connection is being prepared: the writer of the pool's keyspace and the publication
    # of the new connection have to exclude each other, and the publisher has to look at the keyspace again before it publishes
    chk.rule('C20.install', 'the keyspace selected on a new connection is compared with self._keyspace again inside the critical section that publishes the connection, '
                            'and _set_keyspace_for_all_conns stores self._keyspace (and reads the connections) under the same lock')
    from ..locks import held as _held
    for cls_, fn_, attr_ in (('HostConnection', '_replace', '_connection'), ('HostConnectionPool', '_add_conn_if_under_max', '_connections')):
        f = pool.func('%s.%s' % (cls_, fn_))
        w = pool.func('%s._set_keyspace_for_all_conns' % cls_)
        pubs = [st for st in body_walk(f) if isinstance(st, ast.Assign) and src(st.targets[0]) == 'self.%s' % attr_]
        if not pubs:
            raise AnalysisError('%s.%s: publication of self.%s not found' % (cls_, fn_, attr_))
        rechecked = True
        for p_ in pubs:
            regions = [w_ for l_, w_ in _held(p_) if l_ == ('self', '_lock')]
            rechecked = rechecked and bool(regions) and any(isinstance(x, (ast.If, ast.While)) and 'self._keyspace' in src(x.test) for x in ast.walk(regions[0]))
        wr = [st for st in body_walk(w) if isinstance(st, ast.Assign) and src(st.targets[0]) == 'self._keyspace']
        locked_w = bool(wr) and all(holds(st, ('self',), '_lock') for st in wr)
        chk.judge(rechecked and locked_w, 'C20.install', f, '%s.%s: the new connection is published only if its keyspace is still the pool\'s (re-checked under the lock the keyspace writer takes)' % (cls_, fn_),
                  '%s.%s reads self._keyspace, selects it on the new connection (a blocking round trip) and then publishes the connection without looking again; %s._set_keyspace_for_all_conns '
                  'stores the new keyspace %s and sends USE to the connections it finds at that moment: a USE that arrives in between is reported as applied while the connection published '
                  'a moment later is on the old keyspace' % (cls_, fn_, cls_, 'under the lock' if locked_w else 'without the lock'))

    # ---- connection
    sa = conn.func('Connection.set_keyspace_async')
    nd = nested_defs(sa)
    if 'process_result' not in nd:
        raise AnalysisError('set_keyspace_async: process_result not found')
    pr = nd['process_result']
    g, fl = completion_flow(sa, 'callback', set(nd))
    bad = [st for st in fl.at(g.exit) if not st[1]]
    chk.judge(not bad, 'C20.complete', sa, 'set_keyspace_async: callback called or handed to send_msg on every path', 'a path of set_keyspace_async never completes')
    gp, flp = completion_flow(pr, 'callback', set())
    bad = [st for st in flp.at(gp.exit) if not st[1]]
    chk.judge(not bad, 'C20.complete', pr, 'process_result: every arm calls callback', 'an arm of process_result never completes')
    sets = [st for st in body_walk(pr) if isinstance(st, ast.Assign) and src(st.targets[0]) == 'self.keyspace']
    gpr = CFG(pr)
    flr = Flow(gpr, 0, lambda n, c: c)
    ok = len(sets) == 1 and src(sets[0].value) == 'keyspace'
    if ok:
        sn = [n for n in gpr.stmt_nodes() if n.ast is sets[0]][0]
        ok = all(fa.knows('isinstance(result, ResultMessage)') is True for fa, _ in flr.at(sn))
    chk.judge(ok, 'C20.confirm', pr, 'connection.keyspace recorded only when the server answered with a RESULT', 'the connection records the keyspace without confirmation')
    # what each call of the callback hands over, per path: the last value given to the name it passes (or the expression itself)
    _vals = {}

    def _step_cb(n, c):
        if n.kind == 'stmt' and isinstance(n.ast, ast.Assign) and len(n.ast.targets) == 1 and isinstance(n.ast.targets[0], ast.Name):
            _vals[id(n.ast.value)] = n.ast.value
            d = dict(c)
            d[n.ast.targets[0].id] = id(n.ast.value)
            return tuple(sorted(d.items()))
        return c
    flc = Flow(gpr, (), _step_cb)
    cb_nodes = [n for n in gpr.stmt_nodes() if n.kind == 'stmt' and any(isinstance(x, ast.Call) and isinstance(x.func, ast.Name) and x.func.id == 'callback' for x in walk_no_nested(n.ast))]
    n_fail = 0
    okarms = bool(cb_nodes)
    why_arm = ''
    for n in cb_nodes:
        call = [x for x in walk_no_nested(n.ast) if isinstance(x, ast.Call) and isinstance(x.func, ast.Name) and x.func.id == 'callback'][0]
        if len(call.args) != 2:
            okarms, why_arm = False, 'callback called with %d arguments' % len(call.args)
            continue
        for fa, c in flc.at(n):
            a1 = call.args[1]
            if isinstance(a1, ast.Name) and a1.id in dict(c):
                a1 = _vals[dict(c)[a1.id]]
            is_none = isinstance(a1, ast.Constant) and a1.value is None
            success = fa.knows('isinstance(result, ResultMessage)') is True
            if success and not is_none:
                okarms, why_arm = False, 'the success arm reports %s' % src(a1)[:40]
            if not success:
                n_fail += 1
                if is_none:
                    okarms, why_arm = False, 'a failure arm reports success (None)'
                elif isinstance(a1, ast.Call) and isinstance(a1.func, ast.Attribute) and src(a1.func.value) == 'self' and conn.has('Connection.%s' % a1.func.attr):
                    callee = conn.func('Connection.%s' % a1.func.attr)
                    if any(isinstance(r, ast.Return) and (r.value is None or (isinstance(r.value, ast.Constant) and r.value.value is None)) for r in body_walk(callee)):
                        okarms = False
                        why_arm = ('the error is the return value of self.%s(), which returns None when the connection is already defunct or closed: a USE that failed because the '
                                   'connection died is reported as success for that connection, and the switch as a whole reports no error' % a1.func.attr)
    chk.judge(okarms and n_fail >= 2, 'C20.confirm', pr, 'process_result: None only for a RESULT answer; every other arm hands an error (never None) to the callback', why_arm or 'a failure arm reports success')
    s = src(sa)
    chk.judge('if not keyspace or keyspace == self.keyspace' in s, 'C20.confirm', sa, 'no request when the keyspace is already selected', 'shortcut changed')
    sb = conn.func('Connection.set_keyspace_blocking')
    s = src(sb)
    chk.judge('self.keyspace = keyspace' in s and s.index('wait_for_response') < s.index('self.keyspace = keyspace'), 'C20.confirm', sb,
              'set_keyspace_blocking records the keyspace after the server answered', 'blocking variant records the keyspace before confirmation')

    # a pool that is still being created when the keyspace changes is brought up to date before it is published - and re-checked,
    # because the session lock is released while the pool switches
    chk.rule('C20.catchup', 'add_or_renew_pool repeats the keyspace catch-up of a new pool until it matches the session keyspace (a loop, under the session lock when tested)')
    cl_ = chk.repo.mod('cassandra/cluster.py')
    ar = cl_.func('Session.add_or_renew_pool.run_add_or_renew_pool') if cl_.has('Session.add_or_renew_pool.run_add_or_renew_pool') else cl_.func('Session.add_or_renew_pool')
    tests_ = [n for n in ast.walk(ar) if isinstance(n, (ast.While, ast.If)) and 'new_pool._keyspace' in src(n.test) and 'self.keyspace' in src(n.test)]
    if not tests_:
        raise AnalysisError('add_or_renew_pool: keyspace catch-up test not found')
    chk.judge(any(isinstance(n, ast.While) for n in tests_), 'C20.catchup', tests_[0], 'catch-up is `while new_pool._keyspace != self.keyspace`',
              'the catch-up runs once (`if`): a second keyspace switch that completes while the lock is released for the first catch-up never reaches the new pool, '
              'which is then published one keyspace behind although both switches reported success')



def mod_of(node):
    return node._mod
