"""C14 - every request completes exactly once (structure of the outcome paths)."""
import ast

from ..core import AnalysisError, src, body_walk, walk_no_nested, qual_of
from ..cfg import CFG, Flow
from ..locks import held, holds
from ..rfutil import (CLUSTER, outcome_flow, effects_of_stmt, classify_call, FINAL_RESULT, FINAL_EXC, RETRY, REPREPARE, ASYNC, SEND, TIMEOUT, TERMINAL)


def check(chk):
    chk.decides = ('every path through the response handlers of ResponseFuture reaches exactly one outcome effect (final result, final exception, retry, '
                   're-prepare, asynchronous continuation); nothing is sent after a terminal outcome on the same path; the two terminal setters and the '
                   'two callback registration methods have the same locking shape; the blocking result() reads the same fields; a send issued from the '
                   'speculative timer does not finalise on plan exhaustion; terminal setters are once-latched')
    chk.does_not_decide = 'orderings of concurrent events (speculative answers, late answers, timeouts racing responses)'
    chk.rule('C14.one', 'each normal path of a response handler has exactly one outcome effect')
    chk.rule('C14.nosend', 'no request-sending call after a terminal-outcome call on the same path')
    chk.rule('C14.siblings', '_set_final_result / _set_final_exception and add_callback / add_errback: outcome written and callbacks snapshotted inside '
                             '_callback_lock, _event.set() after, user callbacks outside the lock')
    chk.rule('C14.result', 'result() waits for the event and reports _final_result if set, else raises _final_exception')
    chk.rule('C14.spec', 'the speculative-execution timer sends with error_no_hosts=False (an exhausted plan must not finalise while the original request is in flight)')
    chk.rule('C14.latch', 'a terminal setter that more than one registered response callback can reach must test-and-set (first outcome wins)')
    cl = chk.repo.mod(CLUSTER)

    # ---- exactly one outcome per path
    def one_outcome(qual, exempt=None, allow=None, allow_zero_if=None):
        f = cl.func(qual)
        g, fl = outcome_flow(f)
        bad = {}
        n = 0
        for facts, c in fl.at(g.exit):
            n += 1
            eff = list(c)
            # a SEND that falls back to another SEND on failure (request_id is None -> send_request) is one outcome
            norm = []
            for e in eff:
                if norm and norm[-1] == SEND and e == SEND:
                    continue
                norm.append(e)
            if allow and tuple(norm) in allow:
                continue
            if len(norm) == 1:
                continue
            if len(norm) == 0 and allow_zero_if and allow_zero_if(facts):
                continue
            w = fl.witness(g.exit, (facts, c))
            bad[tuple(norm)] = w
        for k, w in sorted(bad.items()):
            chk.viol('C14.one', f, '%s: outcome effects on a path = %s' % (qual, list(k) or 'none'),
                     'a path reaches %s outcome effects %s: %s' % ('no' if not k else 'several', list(k), ' | '.join(w[-7:])))
        if not bad:
            chk.ok('C14.one', f, '%s: every path has exactly one outcome effect (%d path states)' % (qual, n))
    one_outcome('ResponseFuture._set_result',
                allow_zero_if=lambda facts: facts.knows('session') is False and facts.knows('response.kind == RESULT_KIND_SET_KEYSPACE') is True)
    one_outcome('ResponseFuture._handle_retry_decision')
    one_outcome('ResponseFuture._set_keyspace_completed')
    one_outcome('ResponseFuture._execute_after_prepare', allow_zero_if=lambda facts: facts.knows('self._final_exception') is True)
    one_outcome('ResponseFuture._retry_task', allow_zero_if=lambda facts: facts.knows('self._final_exception') is True)
    one_outcome('ResponseFuture._retry', allow_zero_if=lambda facts: facts.knows('self._final_exception') is True)
    one_outcome('ResponseFuture._reprepare', allow_zero_if=lambda facts: facts.knows('self._final_exception') is True)
    # ---- deferred continuations: a task that was queued (executor, timer) and sends must first look whether the future is already complete
    chk.rule('C14.deferred', 'a ResponseFuture method handed to session.submit / create_timer that sends a request does so only under `not self._final_exception` / `not self._event.is_set()`')
    rcls = cl.cls('ResponseFuture')
    deferred = set()
    for n in ast.walk(rcls):
        if isinstance(n, ast.Call) and (src(n.func).endswith('session.submit') or src(n.func) == 'partial' and n.args and src(n.args[0]).endswith('session.submit') or src(n.func).endswith('create_timer')):
            for a in n.args:
                if isinstance(a, ast.Attribute) and isinstance(a.value, ast.Name) and a.value.id == 'self' and cl.has('ResponseFuture.%s' % a.attr):
                    deferred.add(a.attr)
                if isinstance(a, ast.Call) and src(a.func) == 'partial' and a.args and isinstance(a.args[0], ast.Attribute) and src(a.args[0].value) == 'self' and cl.has('ResponseFuture.%s' % a.args[0].attr):
                    deferred.add(a.args[0].attr)
    nd = 0
    for name in sorted(deferred):
        f = cl.func('ResponseFuture.%s' % name)
        g = CFG(f)
        fl = Flow(g, 0, lambda n_, c: c)
        sends = [n_ for n_ in g.stmt_nodes() if n_.kind in ('stmt', 'test', 'return') and n_.ast is not None and
                 any(isinstance(x, ast.Call) and src(x.func) in ('self._query', 'self.send_request') for x in walk_no_nested(n_.ast))]
        if not sends:
            continue
        nd += 1
        bad = [src(n_.ast)[:60] for n_ in sends if not all(fa.knows('self._final_exception') is False or fa.knows('self._event.is_set()') is False for fa, _ in fl.at(n_))]
        chk.judge(not bad, 'C14.deferred', f, '%s (queued continuation): sends only after testing that the future is still pending' % name,
                  '%s can run after the future was completed (e.g. by the client timeout) and still sends (%s): the late answer then delivers a second outcome' % (name, '; '.join(bad)))
    if nd < 3:
        raise AnalysisError('deferred sending continuations: expected at least 3 (_retry_task, _reprepare, _on_speculative_execute), found %d of %s' % (nd, sorted(deferred)))
    # _on_timeout: final exception or re-arm (PYTHON-853 short-timeout race)
    ot = cl.func('ResponseFuture._on_timeout')
    g, fl = outcome_flow(ot)
    bad = []
    for facts, c in fl.at(g.exit):
        rearm = facts.knows('self._connection is None') is True and facts.knows('_attempts < 3') is True
        if list(c) != [FINAL_EXC] and not (rearm and not c):
            bad.append((facts, c))
    chk.judge(not bad, 'C14.one', ot, '_on_timeout: every path sets the final exception once (or re-arms while the first send is pending)',
              'a timeout path ends with outcome effects %s' % [list(b[1]) for b in bad[:2]])
    # the exception handler of _set_result finalises
    sr = cl.func('ResponseFuture._set_result')
    tries = [n for n in sr.body if isinstance(n, ast.Try)]
    good = len(tries) == 1 and any(h.type is not None and src(h.type) == 'Exception' and any(
        isinstance(x, ast.Call) and src(x.func) == 'self._set_final_exception' for s in h.body for x in ast.walk(s)) for h in tries[0].handlers)
    chk.judge(good, 'C14.one', sr, '_set_result: an unexpected exception in the handler becomes the final exception', 'an exception inside _set_result leaves the request without outcome')

    # ---- no send after a terminal outcome
    for qual in ('ResponseFuture._set_result', 'ResponseFuture._execute_after_prepare', 'ResponseFuture._handle_retry_decision',
                 'ResponseFuture._on_timeout', 'ResponseFuture._reprepare', 'ResponseFuture._retry_task', 'ResponseFuture._on_speculative_execute',
                 'ResponseFuture._retry', 'ResponseFuture.send_request'):
        f = cl.func(qual)
        g, fl = outcome_flow(f)
        viol = None
        for n in g.nodes:
            for facts, c in fl.at(n):
                for i, e in enumerate(c):
                    if e in TERMINAL and any(x in (SEND, REPREPARE, RETRY) for x in c[i + 1:]):
                        viol = (n, (facts, c))
        if viol:
            chk.viol('C14.nosend', f, '%s: nothing is sent after a terminal outcome' % qual,
                     'after the final outcome was set the same path still sends/retries (%s): %s' % (list(viol[1][1]), ' | '.join(fl.witness(viol[0], viol[1])[-6:])))
        else:
            chk.ok('C14.nosend', f, '%s: nothing is sent after a terminal outcome' % qual)

    # ---- siblings
    def setter_shape(qual, field, cbs):
        f = cl.func(qual)
        body = [st for st in f.body if not (isinstance(st, ast.Expr) and isinstance(st.value, ast.Constant))]
        facts = {}
        facts['cancels_timer_first'] = isinstance(body[0], ast.Expr) and src(body[0].value) == 'self._cancel_timer()'
        w = [st for st in body if isinstance(st, ast.With) and any(src(i.context_expr) == 'self._callback_lock' for i in st.items)]
        facts['one_lock_region'] = len(w) == 1
        if w:
            inside = [src(st.targets[0]) for st in w[0].body if isinstance(st, ast.Assign)]
            facts['writes_field_in_lock'] = 'self.%s' % field in inside
            facts['snapshots_in_lock'] = any('self.%s' % cbs in src(st) for st in w[0].body)
            after = body[body.index(w[0]) + 1:]
            facts['event_set_after_lock'] = any(isinstance(st, ast.Expr) and src(st.value) == 'self._event.set()' for st in after)
            facts['event_not_in_lock'] = 'self._event.set()' not in src(w[0])
            loops = [st for st in after if isinstance(st, ast.For)]
            facts['callbacks_outside_lock'] = len(loops) == 1 and 'callback_partial()' in src(loops[0]) and 'callback_partial()' not in src(w[0])
            ei = [i for i, st in enumerate(after) if isinstance(st, ast.Expr) and src(st.value) == 'self._event.set()']
            li = [i for i, st in enumerate(after) if isinstance(st, ast.For)]
            facts['event_before_callbacks'] = bool(ei and li and ei[0] < li[0])
        return f, facts
    f1, s1 = setter_shape('ResponseFuture._set_final_result', '_final_result', '_callbacks')
    f2, s2 = setter_shape('ResponseFuture._set_final_exception', '_final_exception', '_errbacks')
    for f, s, nm in ((f1, s1, '_set_final_result'), (f2, s2, '_set_final_exception')):
        missing = sorted(k for k, v in s.items() if not v)
        chk.judge(not missing and len(s) == 8, 'C14.siblings', f, '%s: field + snapshot inside _callback_lock, event after, callbacks outside' % nm,
                  '%s lost: %s' % (nm, ', '.join(missing) or 'lock region'))

    def adder_shape(qual, cbs, test):
        f = cl.func(qual)
        w = [st for st in body_walk(f) if isinstance(st, ast.With) and any(src(i.context_expr) == 'self._callback_lock' for i in st.items)]
        facts = {'one_lock_region': len(w) == 1}
        if w:
            attr = test.split(' ')[0].split('.')[-1]             # _final_result / _final_exception
            inside = set(id(x) for x in ast.walk(w[0]))
            appends = [c for c in body_walk(f) if isinstance(c, ast.Call) and src(c.func) == 'self.%s.append' % cbs]
            facts['appends_in_lock'] = bool(appends) and all(id(c) in inside for c in appends)
            reads = [a for a in body_walk(f) if isinstance(a, ast.Attribute) and a.attr == attr and src(a.value) == 'self' and isinstance(a.ctx, ast.Load)]
            # the outcome is looked at while the lock that orders registration against completion is held - and only there
            runs = [c for c in body_walk(f) if isinstance(c, ast.Call) and isinstance(c.func, ast.Name) and c.func.id == 'fn']
            # ... and the decision to run at once is not taken again from an unlocked read
            from ..core import parent as _par
            unlocked_tests = []
            for c in runs:
                p_ = _par(c)
                while p_ is not None and p_ is not f:
                    if isinstance(p_, (ast.If, ast.IfExp, ast.While)) and id(p_) not in inside:
                        unlocked_tests += [a for a in ast.walk(p_.test) if isinstance(a, ast.Attribute) and a.attr == attr and src(a.value) == 'self']
                    p_ = _par(p_)
            facts['tests_outcome_in_lock'] = any(id(a) in inside for a in reads) and not unlocked_tests
            facts['runs_outside_lock'] = bool(runs) and not any(id(c) in inside for c in runs)
        return f, facts
    a1, t1 = adder_shape('ResponseFuture.add_callback', '_callbacks', 'self._final_result is not _NOT_SET')
    a2, t2 = adder_shape('ResponseFuture.add_errback', '_errbacks', 'self._final_exception')
    for f, s, nm in ((a1, t1, 'add_callback'), (a2, t2, 'add_errback')):
        missing = sorted(k for k, v in s.items() if not v)
        chk.judge(not missing and len(s) == 4, 'C14.siblings', f, '%s: register + test inside _callback_lock, run outside' % nm, '%s lost: %s' % (nm, ', '.join(missing)))

    # ---- result()
    r = cl.func('ResponseFuture.result')
    body = [st for st in r.body if not (isinstance(st, ast.Expr) and isinstance(st.value, ast.Constant))]
    gr = CFG(r)
    flr = Flow(gr, 0, lambda n, c: c)
    rets_ = [n for n in gr.nodes if n.kind == 'return' and n.ast.value is not None]
    rais_ = [n for n in gr.nodes if n.kind == 'raise_stmt']
    good = len(body) >= 2 and src(body[0]) == 'self._event.wait()' and len(rets_) == 1 and len(rais_) == 1 and src(rets_[0].ast.value) == 'ResultSet(self, self._final_result)' \
        and src(rais_[0].ast.exc) == 'self._final_exception' and all(fa.knows('self._final_result is _NOT_SET') is False for fa, _ in flr.at(rets_[0])) \
        and all(fa.knows('self._final_result is _NOT_SET') is True for fa, _ in flr.at(rais_[0]))
    chk.judge(good, 'C14.result', r, 'result(): wait, then _final_result if set else raise _final_exception', 'result() no longer reports the stored outcome')

    # ---- speculative send
    se = cl.func('ResponseFuture._on_speculative_execute')
    sends = [n for n in body_walk(se) if isinstance(n, ast.Call) and src(n.func) == 'self.send_request']
    if not sends:
        raise AnalysisError('_on_speculative_execute: send_request call vanished')
    for s_ in sends:
        kw = dict((k.arg, src(k.value)) for k in s_.keywords)
        pos = [src(a) for a in s_.args]
        chk.judge(kw.get('error_no_hosts') == 'False' or pos[:1] == ['False'], 'C14.spec', s_, '_on_speculative_execute: send_request(error_no_hosts=False)',
                  'when the speculative timer fires with an exhausted plan the future is failed with NoHostAvailable while the original request is still in '
                  'flight; its answer then completes the future a second time')
    g = CFG(se)
    fl = Flow(g, 0, lambda n, c: c)
    nds = [n for n in g.stmt_nodes() if n.ast is not None and any(x is sends[0] for x in (walk_no_nested(n.ast) if isinstance(n.ast, ast.stmt) else ast.walk(n.ast)))]
    if not nds:
        raise AnalysisError('_on_speculative_execute: send_request call not in the CFG')
    nd = nds[0]
    chk.judge(all(fa.knows('self._event.is_set()') is False for fa, _ in fl.at(nd)), 'C14.spec', se, 'speculative send only while the future is not complete',
              'a speculative request can be sent after the outcome was delivered')

    # ---- once latch (known finding)
    for f, fld in ((f1, 'self._final_result'), (f2, 'self._final_exception')):
        w = [st for st in f.body if isinstance(st, ast.With)]
        latched = False
        for st in ast.walk(f):
            if isinstance(st, ast.If) and ('_final_result' in src(st.test) or '_final_exception' in src(st.test) or '_event.is_set' in src(st.test)) \
                    and any(isinstance(x, ast.Return) for x in st.body):
                latched = True
        chk.judge(latched, 'C14.latch', f, '%s is once-latched' % f.name,
                  '%s has no test-and-set: it is reachable from every registered response callback (original, each speculative execution, a late answer after '
                  '_on_timeout) so a second answer overwrites the outcome and runs the callbacks again' % f.name)

    # USE statements finish through the keyspace switch: its completion must be delivered once
    chk.rule('C14.use', 'the keyspace switch that completes a USE request reports its completion exactly once (all pools asked are the pools awaited; errors accumulated)')
    chk.rule('C14.conn', 'a connection that dies fails each request pending on it exactly once (error_all_requests swaps the table and walks every saved callback once)')
    chk.rule('C14.retry', 'a same-host retry that was sent is not followed by another send of the same request (the stream id 0 is a stream id)')
    chk.borrow('C17', {'C17.retry': 'C14.retry'}, 'the request is sent twice for one retry decision: both sends are answered and the outcome is delivered twice')
    chk.borrow('C10', {'C10.swap': 'C14.conn'}, 'a request failed twice by its dying connection is retried twice: callback and errback (or the callback twice) run for one execution')
    chk.rule('C14.timer', 'with a finite timeout every path of _start_timer leaves a timer armed (shared with C15.arm): a silent server otherwise yields no outcome at all')
    chk.borrow('C15', {'C15.arm': 'C14.timer'}, 'the future is left without any timer: it never completes, neither callback nor errback runs')
    chk.borrow('C20', {'C20.complete': 'C14.use'}, 'the request\'s outcome callback can run more than once or never')
