"""C43 - schema agreement is reported only when all live nodes agree (structure)."""
import ast

from ..core import AnalysisError, src, body_walk, walk_no_nested, parent
from ..cfg import CFG, Flow
from ..fold import Folder, Unfoldable

CLUSTER = 'cassandra/cluster.py'


def check(chk):
    chk.decides = ('a peer\'s version is counted iff the host is known and not marked down (is_up None or True, over the three states), the control node\'s own version '
                   'is counted, empty versions are skipped, the verdict is "agreed" iff exactly one distinct version was collected; wait_for_schema_agreement '
                   'returns True only right after a mismatch computation that returned None, returns False only once the loop condition elapsed < total failed, '
                   'and every way back to the loop head refreshes elapsed from the clock; the schema-change future starts False and records the outcome')
    chk.does_not_decide = 'sequences of snapshots; clock behaviour'
    chk.rule('C43.peer', 'peer counted iff known and is_up is not False (folded over is_up in {None, False, True}); rows without version skipped; local version counted')
    chk.rule('C43.columns', 'the schema-agreement peer queries select every column that identifies a peer (address and port columns, host_id) that the node-list query of the same table selects')
    chk.rule('C43.verdict', '_get_schema_mismatches returns None iff len(versions) == 1, versions keyed by schema version')
    chk.rule('C43.wait', 'return True dominated by `schema_mismatches is None` freshly computed; return False only after loop exit; elapsed refreshed on every path to the loop head')
    chk.rule('C43.result', '_refresh_schema returns True only when agreement was reached and False only when it was not; refresh_schema_and_set_result stores it and always completes the future')
    cl = chk.repo.mod(CLUSTER)
    folder = Folder(cl)
    gm = cl.func('ControlConnection._get_schema_mismatches')
    adds = [n for n in body_walk(gm) if isinstance(n, ast.Call) and isinstance(n.func, ast.Attribute) and n.func.attr == 'add' and src(n.func.value).startswith('versions[')]
    if len(adds) != 2:
        raise AnalysisError('_get_schema_mismatches: two versions[...].add sites expected, found %d' % len(adds))
    peer_add = [a for a in adds if src(a.args[0]) == 'endpoint']
    local_add = [a for a in adds if src(a.args[0]) == 'local_address']
    if len(peer_add) != 1 or len(local_add) != 1:
        raise AnalysisError('_get_schema_mismatches: peer/local add sites not recognised')
    guard = parent(parent(peer_add[0]))
    if not isinstance(guard, ast.If):
        raise AnalysisError('peer add is not guarded by an if')
    bad = []
    for known in (True, False):
        for up in (None, False, True):
            env = {'peer': {'is_up': up} if known else None}
            try:
                got = bool(folder.eval(guard.test, env=env))
            except Unfoldable as e:
                raise AnalysisError('peer guard not foldable: %s' % e)
            want = known and up is not False
            if got != want:
                bad.append('known=%s is_up=%s counted=%s' % (known, up, got))
    chk.judge(not bad, 'C43.peer', guard, 'peer counted iff known and not marked down, over 2 x {None, False, True}',
              'the peer guard `%s` decides wrongly for %s: a host that was never marked (is_up None) must still have to agree, a down host must not' % (src(guard.test), '; '.join(bad)))
    from .. import sem as _sem43
    g43, fl43 = _sem43.flow_of(gm)

    def _key_of(call):
        k = call.func.value.slice
        txt = src(k)
        if isinstance(k, ast.Name):
            ds = [st for st in body_walk(gm) if isinstance(st, ast.Assign) and len(st.targets) == 1 and src(st.targets[0]) == k.id]
            if len(ds) == 1:
                return txt, src(ds[0].value).replace('"', "'")
        return txt, txt.replace('"', "'")
    pk, pk_def = _key_of(peer_add[0])
    pnode = _sem43.node_of(g43, peer_add[0])
    p_states = list(fl43.at(pnode)) if pnode is not None else []
    chk.judge(pk_def == "row.get('schema_version')" and 'peer = self._cluster.metadata.get_host(endpoint)' in src(gm), 'C43.peer', gm,
              'peer version keyed by the row\'s schema_version, host looked up by the row endpoint', 'peer bookkeeping changed')
    chk.judge(bool(p_states) and all(fa.knows(pk) is True for fa, _c in p_states), 'C43.peer', gm, 'peer rows without a schema version are skipped', 'empty peer versions are counted')
    lk, lk_def = _key_of(local_add[0])
    lnode = _sem43.node_of(g43, local_add[0])
    l_states = list(fl43.at(lnode)) if lnode is not None else []
    chk.judge(lk_def == "local_row.get('schema_version')" and bool(l_states) and all(fa.knows(lk) is True or fa.knows("local_row.get('schema_version')") is True for fa, _c in l_states), 'C43.peer', gm,
              'control node\'s own schema version is counted', 'local version not counted')
    chk.judge(not [n for n in body_walk(gm) if isinstance(n, ast.Call) and isinstance(n.func, ast.Attribute) and n.func.attr in ('pop', 'clear', 'discard', 'remove') and 'versions' in src(n.func.value)] and
              len([n for n in body_walk(gm) if isinstance(n, ast.Assign) and src(n.targets[0]) == 'versions']) == 1, 'C43.verdict', gm, 'versions only grows', 'versions is pruned')
    g = CFG(gm)
    fl = Flow(g, 0, lambda n, c: c)
    rets = [n for n in g.nodes if n.kind == 'return']
    for r in rets:
        v = r.ast.value
        if v is None or (isinstance(v, ast.Constant) and v.value is None):
            chk.judge(all(fa.knows('len(versions) == 1') is True for fa, _ in fl.at(r)), 'C43.verdict', r.ast, 'return None only when exactly one version',
                      'agreement is reported without exactly one distinct version')
        else:
            chk.judge(all(fa.knows('len(versions) == 1') is False for fa, _ in fl.at(r)) and (isinstance(v, ast.DictComp) or (isinstance(v, ast.Call) and src(v.func) == 'dict')), 'C43.verdict', r.ast,
                      'mismatch dict (never None) otherwise', 'a mismatch can be reported as None')
    chk.require('C43.verdict', 3)
    # wait loop
    wf = cl.func('ControlConnection.wait_for_schema_agreement')
    g = CFG(wf, may_raise=lambda n: ['OperationTimedOut', 'ConnectionShutdown'] if 'wait_for_responses' in src(n) else [])

    def step(n, c):
        # custom: 'fresh' right after schema_mismatches = self._get_schema_mismatches(...); 'stale' otherwise
        if n.kind == 'stmt' and isinstance(n.ast, ast.Assign) and src(n.ast.targets[0]) == 'schema_mismatches':
            return 'fresh' if 'self._get_schema_mismatches(peers_result, local_result, connection.endpoint)' in src(n.ast.value) else 'stale'
        if n.kind == 'stmt' and any(isinstance(x, (ast.Assign, ast.AugAssign)) for x in [n.ast]) and ('peers_result' in [src(t) for t in getattr(n.ast, 'targets', [])]):
            return 'stale' if c == 'fresh' else c
        return c
    fl = Flow(g, 'none', step)
    whiles = [n for n in body_walk(wf) if isinstance(n, ast.While)]
    if len(whiles) != 1 or src(whiles[0].test) != 'elapsed < total_timeout':
        raise AnalysisError('wait_for_schema_agreement: `while elapsed < total_timeout` not found')
    wl = whiles[0]
    inloop = set(id(x) for x in ast.walk(wl))
    for r in [n for n in g.nodes if n.kind == 'return']:
        v = r.ast.value
        val = None if v is None else (v.value if isinstance(v, ast.Constant) else '?')
        sts = fl.at(r)
        if val is True:
            early = all(fa.knows('total_timeout <= 0') is True for fa, _ in sts)
            if early:
                chk.ok('C43.wait', r.ast, 'waiting disabled (total_timeout <= 0) -> True without polling (documented)')
                continue
            chk.judge(all(fa.knows('schema_mismatches is None') is True and c == 'fresh' for fa, c in sts), 'C43.wait', r.ast, 'return True right after a mismatch computation that found none',
                      'agreement is reported although the last comparison found mismatches (or none was made)')
        elif val is False:
            chk.judge(id(r.ast) not in inloop and all(fa.knows('elapsed < total_timeout') is False for fa, _ in sts), 'C43.wait', r.ast, 'return False only once the wait budget is used up',
                      'disagreement is reported before the configured wait elapsed')
        elif val is None:
            chk.judge(all(fa.knows('self._is_shutdown') is True for fa, _ in sts), 'C43.wait', r.ast, 'None only on shutdown', 'None verdict outside shutdown')
        else:
            chk.viol('C43.wait', r.ast, 'return %s' % src(r.ast), 'unrecognised verdict')
    chk.require('C43.wait', 5)
    # elapsed refreshed on every back edge: state 'refreshed' set by the assignment, cleared at the while test
    def step2(n, c):
        if n.kind == 'test' and n.ast is wl.test:
            return 'stale'
        if n.kind == 'stmt' and isinstance(n.ast, ast.Assign) and src(n.ast.targets[0]) == 'elapsed':
            return 'fresh' if src(n.ast.value) == 'self._time.time() - start' else ('init' if src(n.ast.value) == '0' else 'stale')
        return c
    fl2 = Flow(g, 'none', step2, use_facts=False)
    head = [n for n in g.nodes if n.kind == 'test' and n.ast is wl.test]
    if len(head) != 1:
        raise AnalysisError('loop head test node not found')
    incoming = set(c for _, c in fl2.at(head[0]))
    chk.judge(incoming <= set(['init', 'fresh']) and 'fresh' in incoming, 'C43.wait', wl, 'every path to the loop test carries elapsed = time() - start (or the initial 0)',
              'a path reaches the loop test without refreshing elapsed (%s): the wait can exceed its budget or never end' % sorted(incoming))
    tm = [n for n in body_walk(wl) if isinstance(n, ast.Assign) and src(n.targets[0]) == 'timeout']
    # the poll timeout as a function of the configured control timeout (None = none) and the remaining budget: never above either, never undefined
    okt, whyt = len(tm) == 1, 'poll timeout assignment not found'
    if okt:
        import copy as _copy43

        class _T(ast.NodeTransformer):
            def visit_Attribute(s_, n_):
                return ast.Name(id='_ct', ctx=ast.Load()) if src(n_) == 'self._timeout' else n_
        e_ = _T().visit(_copy43.deepcopy(tm[0].value))
        whyt = ''
        for ct in (None, 1.0, 10.0):
            try:
                got = folder.eval(e_, env={'_ct': ct, 'total_timeout': 7.0, 'elapsed': 2.0})
            except Unfoldable as ex_:
                okt, whyt = False, 'not foldable (%s)' % ex_
                break
            except TypeError as ex_:
                okt, whyt = False, 'control_connection_timeout=%r raises %s' % (ct, ex_)
                break
            want = 5.0 if ct is None else min(ct, 5.0)
            if got != want:
                okt, whyt = False, 'control_connection_timeout=%r, 5 s left -> %r (want %r)' % (ct, got, want)
                break
    chk.judge(okt, 'C43.wait', wl, 'each poll bounded by the control timeout (if any) and by the remaining budget', 'poll timeout not bounded by the remaining wait: %s' % whyt)
    chk.judge('start = self._time.time()' in src(wf), 'C43.wait', wf, 'start taken from the clock before the loop', 'start changed')
    # result
    rs = cl.func('ControlConnection._refresh_schema')
    g = CFG(rs)
    fl = Flow(g, 0, lambda n, c: c)
    ag = [n for n in g.stmt_nodes() if n.kind == 'stmt' and isinstance(n.ast, ast.Assign) and src(n.ast.targets[0]) == 'agreed']
    chk.judge(len(ag) == 1 and src(ag[0].ast.value.func) == 'self.wait_for_schema_agreement', 'C43.result', rs, 'agreed = wait_for_schema_agreement(...)', 'agreed has another source')
    for r in [n for n in g.nodes if n.kind == 'return']:
        v = r.ast.value
        val = v.value if isinstance(v, ast.Constant) else '?'
        sts = fl.at(r)
        if val is True:
            chk.judge(all(fa.knows('agreed') is True for fa, _ in sts), 'C43.result', r.ast, 'True only when agreement was reached', '_refresh_schema reports True without agreement')
        elif val is False:
            pre = all(fa.knows('self._cluster.is_shutdown') is True for fa, _ in sts)
            if pre:
                chk.ok('C43.result', r.ast, 'shut down -> False')
                continue
            chk.judge(all(fa.knows('agreed') is False for fa, _ in sts), 'C43.result', r.ast, 'return False on the arm [%s]' % _arm(r.ast),
                      'the schema-change result says "not agreed" (is_schema_agreed False) on this arm whatever wait_for_schema_agreement returned')
        elif src(v) in ('agreed', 'bool(agreed)'):
            chk.ok('C43.result', r.ast, 'returns the agreement verdict itself on the arm [%s]' % _arm(r.ast))
        else:
            chk.viol('C43.result', r.ast, src(r.ast), 'unrecognised return')
    rr = cl.func('refresh_schema_and_set_result')
    s = src(rr)
    trys = [n for n in rr.body if isinstance(n, ast.Try)]
    good = len(trys) == 1 and any(src(x) == 'response_future._set_final_result(None)' for x in trys[0].finalbody) and \
        'response_future.is_schema_agreed = control_conn._refresh_schema(connection, **kwargs)' in s
    chk.judge(good, 'C43.result', rr, 'is_schema_agreed = _refresh_schema(...); the future always completes (finally)', 'result recording changed')
    sr = cl.func('ResponseFuture._set_result')
    pre = [n for n in body_walk(sr) if isinstance(n, ast.Assign) and src(n.targets[0]) == 'self.is_schema_agreed']
    good = len(pre) == 1 and src(pre[0].value) == 'False'
    if good:
        blk = parent(pre[0])
        sib = blk.body if pre[0] in getattr(blk, 'body', []) else blk.orelse
        i = sib.index(pre[0])
        good = any('refresh_schema_and_set_result' in src(x) for x in sib[i + 1:]) and isinstance(blk, ast.If) and 'RESULT_KIND_SCHEMA_CHANGE' in src(blk.test)
    chk.judge(good, 'C43.result', sr, 'schema-change response: is_schema_agreed = False until the refresh says otherwise', 'pessimistic default removed')
    rcls = cl.cls('ResponseFuture')
    dflt = [st for st in rcls.body if isinstance(st, ast.Assign) and src(st.targets[0]) == 'is_schema_agreed']
    chk.judge(len(dflt) == 1 and src(dflt[0].value) == 'True', 'C43.result', rcls, 'non-DDL requests: is_schema_agreed True', 'class default changed')

    # ---- the peer rows of the agreement query must identify the same endpoints as the rows of the node-list query
    import re
    cc = cl.cls('ControlConnection')
    consts = {}
    def _const_str(e):
        # a query text written as a literal, or derived from earlier ones by +, % and .format with literal arguments
        if isinstance(e, ast.Constant) and isinstance(e.value, str):
            return e.value
        if isinstance(e, ast.Name) and e.id in consts:
            return consts[e.id][1]
        if isinstance(e, ast.BinOp) and isinstance(e.op, ast.Add):
            l_, r_ = _const_str(e.left), _const_str(e.right)
            return l_ + r_ if l_ is not None and r_ is not None else None
        if isinstance(e, ast.Call) and isinstance(e.func, ast.Attribute) and e.func.attr == 'format' and not e.args:
            base = _const_str(e.func.value)
            kw = dict((k.arg, _const_str(k.value)) for k in e.keywords)
            if base is None or None in kw.values() or None in kw:
                return None
            try:
                return base.format(**kw)
            except (KeyError, IndexError, ValueError):
                return None
        return None
    for st in cc.body:
        if isinstance(st, ast.Assign) and isinstance(st.targets[0], ast.Name) and st.targets[0].id.startswith('_SELECT_'):
            v_ = _const_str(st.value)
            if v_ is None:
                raise AnalysisError('ControlConnection.%s: query text not a constant expression (%s)' % (st.targets[0].id, src(st.value)[:60]))
            consts[st.targets[0].id] = (st, v_)

    def cols(q):
        m_ = re.match(r'\s*SELECT\s+(.*?)\s+FROM\s+(\S+)', q, re.I | re.S)
        if not m_:
            return None, None
        return [c.strip() for c in m_.group(1).split(',')], m_.group(2)
    pairs = 0
    for name, (st, q) in sorted(consts.items()):
        if 'SCHEMA_PEERS' not in name:
            continue
        c_s, table = cols(q)
        if c_s is None or c_s == ['*']:
            continue
        # the node-list query of the same table that names its columns
        sib = [(n2, cols(q2)[0]) for n2, (_st2, q2) in consts.items() if 'NO_TOKENS' in n2 and cols(q2)[1] == table and cols(q2)[0] not in (None, ['*'])]
        for n2, c_n in sib:
            pairs += 1
            ident = [c for c in c_n if c in ('peer', 'host_id') or 'address' in c or c.endswith('_port') or c.startswith('{')]
            missing = [c for c in ident if c not in c_s]
            if '{nt_col_name}' in c_s and 'rpc_address' in missing:
                # the placeholder is rpc_address on Cassandra and native_transport_address (which get_broadcast_rpc_address prefers) on DSE 6+
                missing.remove('rpc_address')
            chk.judge(not missing, 'C43.columns', st, '%s selects the identifying columns of %s (%s)' % (name, n2, ident),
                      '%s does not select %s: the endpoint built from an agreement row differs from the one the node list knows (default port instead of the advertised one), so an '
                      'up peer is not found and is ignored - or a down peer is mistaken for another host - and agreement is misreported' % (name, missing))
    if pairs < 2:
        raise AnalysisError('C43.columns: schema / node-list peer query pairs not found (%d)' % pairs)


def _arm(ret):
    p = parent(ret)
    return src(p.test) if isinstance(p, ast.If) else '?'
