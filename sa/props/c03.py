"""C03 - request frames conform to the native protocol specification.

Decides (structure): for every request class x protocol version x three-valued
valuation of its optional attributes, the abstractly interpreted send_body
either raises or produces a field sequence equal to the specification's layout
for the options whose flag it set; flag set <=> field written; unsupported
options raise; header format/length.  Does not decide field *contents*.
"""
import ast
import importlib.util
import itertools
import os

from ..core import AnalysisError, VERIF, chain, src
from ..fold import Folder, Unfoldable
from ..absint import Interp, Sym, TriVal, text_of
from ..guards import NONE, FALSY, TRUTHY, TRI

PROTO = 'cassandra/protocol.py'
INIT = 'cassandra/__init__.py'
MARSHAL = 'cassandra/marshal.py'


def load_spec():
    p = os.path.join(VERIF, 'spec', 'native_protocol.py')
    sp = importlib.util.spec_from_file_location('verif_spec_native_protocol', p)
    m = importlib.util.module_from_spec(sp)
    sp.loader.exec_module(m)
    return m


# primitive writer -> spec primitive name
WRITER_PRIM = {
    'write_byte': 'byte', 'write_short': 'short', 'write_int': 'int', 'write_uint': 'uint', 'write_long': 'long',
    'write_consistency_level': 'consistency', 'write_string': 'string', 'write_longstring': 'long string',
    'write_value': 'value', 'write_stringlist': 'string list', 'write_stringmap': 'string map',
    'write_bytesmap': 'bytes map', 'write_stringmultimap': 'string multimap', 'write_inet': 'inet',
}
# equivalent encodings on the wire
PRIM_EQUIV = {
    'bytes': ('long string', 'value', 'bytes'),          # [int n][n bytes]
    'short bytes': ('string', 'short bytes'),            # [short n][n bytes]
    'consistency': ('consistency', 'short'),
    'uint': ('uint', 'int'),
    'int': ('int',),
}


def prim_ok(spec_prim, got_prim):
    return got_prim in PRIM_EQUIV.get(spec_prim, (spec_prim,))


class Machine(object):
    """shared pieces: modules, folder, version domain, event hook."""

    def __init__(self, chk):
        self.chk = chk
        self.proto = chk.repo.mod(PROTO)
        self.init = chk.repo.mod(INIT)
        self.marshal = chk.repo.mod(MARSHAL)
        self.folder = Folder(self.proto, others=[self.init, self.marshal])
        self.pv_cls = self.init.cls('ProtocolVersion')
        try:
            self.versions = tuple(sorted(Folder(self.init).class_const('ProtocolVersion', 'SUPPORTED_VERSIONS')))
        except Unfoldable as e:
            raise AnalysisError('cannot fold ProtocolVersion.SUPPORTED_VERSIONS: %s' % e)
        self.pv_folder = Folder(self.init)

    def pv_pred(self, name, version, _depth=0):
        """fold ProtocolVersion.<name>(version) from its source."""
        m = None
        for st in self.pv_cls.body:
            if isinstance(st, ast.FunctionDef) and st.name == name:
                m = st
        if m is None:
            raise AnalysisError('anchor vanished: ProtocolVersion.%s' % name)
        body = [s for s in m.body if not (isinstance(s, ast.Expr) and isinstance(s.value, ast.Constant))]
        if len(body) != 1 or not isinstance(body[0], ast.Return):
            raise AnalysisError('ProtocolVersion.%s is not a single return expression' % name)
        params = [a.arg for a in m.args.args]
        consts = {}
        for st in self.pv_cls.body:
            if isinstance(st, ast.Assign) and isinstance(st.targets[0], ast.Name):
                try:
                    consts[st.targets[0].id] = self.pv_folder.eval(st.value, cls=self.pv_cls)
                except Unfoldable:
                    pass
        env = {params[0]: consts, 'ProtocolVersion': consts, params[1]: version}
        # a predicate written in terms of a sibling predicate: cls.other(version) is folded first
        expr = body[0].value
        sib = [c for c in ast.walk(expr) if isinstance(c, ast.Call) and isinstance(c.func, ast.Attribute) and isinstance(c.func.value, ast.Name) and
               c.func.value.id in (params[0], 'ProtocolVersion') and len(c.args) == 1 and isinstance(c.args[0], ast.Name) and c.args[0].id == params[1] and not c.keywords]
        if sib:
            if _depth > 4:
                raise AnalysisError('ProtocolVersion.%s: predicates call each other too deeply' % name)
            import copy as _copy
            expr = _copy.deepcopy(expr)
            vals = {}

            class _R(ast.NodeTransformer):
                def visit_Call(s_, n):
                    if isinstance(n.func, ast.Attribute) and isinstance(n.func.value, ast.Name) and n.func.value.id in (params[0], 'ProtocolVersion') and len(n.args) == 1 \
                            and isinstance(n.args[0], ast.Name) and n.args[0].id == params[1] and not n.keywords:
                        return ast.copy_location(ast.Constant(value=self.pv_pred(n.func.attr, version, _depth + 1)), n)
                    return s_.generic_visit(n)
            expr = _R().visit(expr)
        try:
            return self.pv_folder.eval(expr, env=env)
        except Unfoldable as e:
            raise AnalysisError('cannot fold ProtocolVersion.%s: %s' % (name, e))

    def effect(self, interp, call, c, args, kwargs, env):
        # alias through local variables: pack = v3_header_pack if ... else header_pack
        if c and len(c) == 1 and c[0] in env and isinstance(env[c[0]], Sym):
            c = (env[c[0]].text,)
        if c and len(c) == 2 and c[0] == 'ProtocolVersion' and len(args) == 1 and isinstance(args[0], int):
            return self.pv_pred(c[1], args[0])
        if c and len(c) == 1 and c[0].startswith('write_') and self.proto.has(c[0]):
            val = args[1] if len(args) > 1 else None
            role = text_of(val) if isinstance(val, (Sym, TriVal)) else (src(call.args[1]) if len(call.args) > 1 else '')
            interp.events.append(('w', c[0], role, val))
            return None
        if c and c[-1] == 'write' and len(args) == 1 and len(c) >= 2:
            interp.events.append(('raw', text_of(args[0]), args[0]))
            return None
        if c and len(c) == 1 and (c[0].endswith('_pack') or c[0] == 'pack'):
            return Sym('%s(%s)' % (c[0], ', '.join(text_of(a) for a in args)))
        return NotImplemented


def flat_fields(events):
    """events -> nested list of ('prim', role text, value) / ('loop', [...]) / ('assume', text, bool)"""
    stack = [[]]
    for ev in events:
        if ev[0] == 'w':
            stack[-1].append((WRITER_PRIM.get(ev[1], ev[1]), ev[2], ev[3]))
        elif ev[0] == 'raw':
            stack[-1].append(('raw', ev[1], ev[2]))
        elif ev[0] == 'loop':
            stack.append([])
        elif ev[0] == 'endloop':
            body = stack.pop()
            stack[-1].append(('loop', None if len(ev) > 1 else body, None))
        elif ev[0] == 'assume':
            stack[-1].append(('assume', ev[1], ev[2]))
    return stack[0]


def show_fields(fields):
    out = []
    for f in fields:
        if f[0] == 'loop':
            out.append('loop[%s]' % (show_fields(f[1]) if f[1] is not None else 'x0'))
        elif f[0] == 'assume':
            continue
        else:
            out.append('%s:%s' % (f[0], f[1]))
    return ' '.join(out)


def sample_valuations(vars_, tier):
    """quick: the three uniform valuations plus every single-variable deviation from each;
    thorough: the full product."""
    vars_ = list(vars_)
    if tier == 'thorough' or len(vars_) <= 4:
        for combo in itertools.product(TRI, repeat=len(vars_)):
            yield dict(zip(vars_, combo))
        return
    seen = set()
    for base in TRI:
        b = dict((v, base) for v in vars_)
        cands = [b]
        for v in vars_:
            for t in TRI:
                if t != base:
                    d = dict(b)
                    d[v] = t
                    cands.append(d)
        for d in cands:
            k = tuple(sorted(d.items()))
            if k not in seen:
                seen.add(k)
                yield d


# role tables: attribute text -> spec role
QP_ROLES = {
    'self.consistency_level': 'consistency', 'flags': 'flags', 'len(self.query_params)': 'n_values',
    'param': 'value', 'self.fetch_size': 'page_size', 'self.paging_state': 'paging_state',
    'self.serial_consistency_level': 'serial_consistency', 'self.timestamp': 'timestamp',
    'self.keyspace': 'keyspace', 'self.query': 'query', 'self.query_id': 'query_id',
    'self.result_metadata_id': 'result_metadata_id',
    'self.continuous_paging_options.max_pages': 'max_pages',
    'self.continuous_paging_options.max_pages_per_second': 'max_pages_per_second',
    'self.continuous_paging_options.max_queue_size': 'max_queue_size',
    'paging_options.max_pages': 'max_pages', 'paging_options.max_pages_per_second': 'max_pages_per_second',
    'paging_options.max_queue_size': 'max_queue_size',
}
QP_OPTIONS = [  # (spec option, attribute, flag constant, "requested" tri-states)
    ('values', 'self.query_params', '_VALUES_FLAG', (FALSY, TRUTHY)),
    ('page_size', 'self.fetch_size', '_PAGE_SIZE_FLAG', (TRUTHY,)),
    ('paging_state', 'self.paging_state', '_WITH_PAGING_STATE_FLAG', (TRUTHY,)),
    ('serial_consistency', 'self.serial_consistency_level', '_WITH_SERIAL_CONSISTENCY_FLAG', (TRUTHY,)),
    ('timestamp', 'self.timestamp', '_PROTOCOL_TIMESTAMP_FLAG', (FALSY, TRUTHY)),
    ('keyspace', 'self.keyspace', '_WITH_KEYSPACE_FLAG', (TRUTHY,)),
    ('continuous_paging', 'self.continuous_paging_options', '_PAGING_OPTIONS_FLAG', (TRUTHY,)),
]


def match_layout(chk, rid, where, label, got, want, roles, strict_roles=True):
    """compare interpreted fields with the spec layout; returns list of problems (strings)."""
    probs = []
    g = [f for f in got if f[0] != 'assume']
    i = 0
    for w in want:
        if w[0] == 'loop':
            if i >= len(g) or g[i][0] != 'loop':
                probs.append('expected a repeated group %s, found %s' % (w[1], g[i][:2] if i < len(g) else 'end of body'))
                return probs
            if g[i][1] is not None:     # None: the iterable is empty on this valuation, zero repetitions
                probs.extend(match_layout(chk, rid, where, label, g[i][1], w[1], roles, strict_roles))
            i += 1
            continue
        if w[0] == 'alt':
            # alternatives keyed by a discriminator; checked by the caller per fork
            continue
        if i >= len(g):
            probs.append('field %s:%s missing at end of body' % w)
            return probs
        prim, text = g[i][0], g[i][1]
        if prim == 'loop':
            probs.append('unexpected repeated group where %s:%s expected' % w)
            return probs
        if not prim_ok(w[0], prim):
            probs.append('field %d: spec says [%s] %s, driver writes [%s] %s' % (i, w[0], w[1], prim, text))
        role = roles.get(text)
        if role is None:
            if strict_roles:
                raise AnalysisError('%s: value %r written by %s has no role in the check\'s table '
                                    '(renamed attribute?)' % (label, text, where))
        elif role != w[1]:
            probs.append('field %d: spec position holds <%s>, driver writes %s (<%s>)' % (i, w[1], text, role))
        i += 1
    if i < len(g):
        probs.append('extra field(s) after the specified body: %s' % show_fields(g[i:]))
    return probs


def check_query_like(chk, M, spec, clsname, body_fn, extra_vars=()):
    cls = M.proto.cls(clsname)
    opts = QP_OPTIONS
    vars_ = [o[1] for o in opts]
    flagvals = {}
    for o in opts:
        try:
            flagvals[o[0]] = M.folder.module_const(o[2])
        except Unfoldable as e:
            raise AnalysisError('flag constant %s: %s' % (o[2], e))
        chk.judge(flagvals[o[0]] == spec.QUERY_FLAGS[o[0]], 'C03.flagbits', (PROTO, '<module>', 0),
                  '%s == %#x' % (o[2], spec.QUERY_FLAGS[o[0]]),
                  'flag constant %s is %#x, the specification says %#x' % (o[2], flagvals[o[0]], spec.QUERY_FLAGS[o[0]]))
    interp0 = Interp(M.proto, M.folder, effect=M.effect)
    send_body, owner = interp0.resolve_method(cls, 'send_body')
    if send_body is None:
        raise AnalysisError('anchor vanished: %s.send_body' % clsname)
    seen_once = set()
    # an option the class's constructor cannot receive stays None (ExecuteMessage takes no keyspace)
    init, _o = interp0.resolve_method(cls, '__init__')
    init_params = set(a.arg for a in init.args.args) if init is not None else set()
    fixed_none = set(o[1] for o in opts if o[1].split('.')[-1] not in init_params and o[1] != 'self.query_params')
    for v in M.versions:
        for val in sample_valuations(vars_, chk.tier):
            if any(val[k] != NONE for k in fixed_none):
                continue
            it = Interp(M.proto, M.folder, valuation=val, effect=M.effect)
            outs = it.run_all(send_body, {'self': Sym('self'), 'f': Sym('f'), 'protocol_version': v, '__owner__': owner}, cls)
            vtxt = 'v=%#x %s' % (v, ','.join('%s=%s' % (k.split('.')[-1], s) for k, s in sorted(val.items()) if s != NONE) or 'all None')
            for out in outs:
                construct = '%s.send_body @ %s' % (clsname, vtxt)
                where = (PROTO, '%s.send_body' % clsname, send_body.lineno)
                # which options were requested and unsupported?
                must_reject = [o[0] for o in opts if o[0] in spec.OPTION_MIN and val[o[1]] == TRUTHY
                               and not spec.OPTION_MIN[o[0]](v)]
                if must_reject:
                    chk.judge(out.kind == 'raise' and out.exc == 'UnsupportedOperation', 'C03.reject', where,
                              '%s: reject %s' % (construct, '+'.join(must_reject)),
                              'option(s) %s requested at a protocol version that cannot carry them, but send_body %s'
                              % (must_reject, 'completes normally (silently dropped or mis-encoded)' if out.kind == 'ok'
                                 else 'raises %s' % out.exc))
                    continue
                if out.kind == 'raise':
                    # raising is acceptable only when something unsupported (even falsy) was given
                    lenient = [o[0] for o in opts if o[0] in spec.OPTION_MIN and val[o[1]] != NONE and not spec.OPTION_MIN[o[0]](v)]
                    if out.exc == 'TypeError' and val['self.query_params'] == NONE and v == 1 and clsname == 'ExecuteMessage':
                        chk.ok('C03.reject', where, construct + ': query_params None on v1 EXECUTE (TypeError)', nontrivial=False)
                        continue
                    chk.judge(bool(lenient), 'C03.reject', where, construct + ': raises ' + str(out.exc),
                              'send_body raises %s although every requested option is supported at this version' % out.exc)
                    continue
                fields = flat_fields(out.events)
                flags_f = [f for f in fields if f[0] in ('byte', 'uint', 'int') and f[1] == 'flags']
                if v == 1 and clsname == 'ExecuteMessage':
                    present = set(['values'])
                    flags = None
                else:
                    if len(flags_f) != 1 or not isinstance(flags_f[0][2], int):
                        if v == 1 and not flags_f:
                            flags = 0
                        else:
                            chk.viol('C03.flagfield', where, construct, 'no single concrete <flags> field is written')
                            continue
                    else:
                        flags = flags_f[0][2]
                    present = set(o[0] for o in opts if flags & flagvals[o[0]])
                    known = 0
                    for o in opts:
                        known |= flagvals[o[0]]
                    if flags & ~known:
                        chk.viol('C03.flagfield', where, construct, 'unknown flag bits %#x set' % (flags & ~known))
                # requested-and-supported options must be carried
                for o in opts:
                    if val[o[1]] in o[3] and (o[0] not in spec.OPTION_MIN or spec.OPTION_MIN[o[0]](v)) and flags is not None:
                        if (o[0] == 'timestamp' and v < 3) or v == 1:
                            continue
                        chk.judge(o[0] in present, 'C03.carry', where, '%s: carries %s' % (construct, o[0]),
                                  'option %s is set (%s=%s) and supported at this version but its flag is not set' % (o[0], o[1], val[o[1]]))
                if 'timestamp' in present and v < 3:
                    chk.note('timestamp flag on v%d is outside the specification; the session layer only sets it on v3+ (C46)' % v)
                    present.discard('timestamp')
                    fields = [f for f in fields if not (isinstance(f[1], str) and QP_ROLES.get(f[1]) == 'timestamp')]
                want = body_fn(v, present)
                if v == 1 and clsname == 'QueryMessage':
                    # the v1 specification's QUERY body is <query><consistency>; anything after it is one finding
                    g = [f for f in fields if f[0] != 'assume']
                    head_probs = match_layout(chk, 'C03.layout', where, construct, g[:2], want, QP_ROLES)
                    if not head_probs and len(g) > 2:
                        if 'v1tail' not in seen_once:
                            seen_once.add('v1tail')
                            chk.viol('C03.layout', where, 'QueryMessage.send_body @ v1: <flags> after <consistency>',
                                     'the v1 specification defines the QUERY body as <query><consistency>; the driver appends a '
                                     'flags byte (and optional fields) that a v1 specification parser does not expect: [%s]' % show_fields(g[2:]))
                        continue
                probs = match_layout(chk, 'C03.layout', where, construct, fields, want, QP_ROLES)
                chk.judge(not probs, 'C03.layout', where, construct,
                          'body differs from the specification: %s; driver body = [%s]' % ('; '.join(probs), show_fields(fields)))


def check_prepare(chk, M, spec):
    cls = M.proto.cls('PrepareMessage')
    interp0 = Interp(M.proto, M.folder, effect=M.effect)
    send_body, owner = interp0.resolve_method(cls, 'send_body')
    if send_body is None:
        raise AnalysisError('anchor vanished: PrepareMessage.send_body')
    try:
        kflag = M.folder.module_const('_PREPARED_WITH_KEYSPACE_FLAG')
    except Unfoldable as e:
        raise AnalysisError(str(e))
    chk.judge(kflag == spec.PREPARE_FLAGS['keyspace'], 'C03.flagbits', (PROTO, '<module>', 0),
              '_PREPARED_WITH_KEYSPACE_FLAG == 0x01', 'prepare keyspace flag is %#x' % kflag)
    roles = {'self.query': 'query', 'flags': 'flags', 'self.keyspace': 'keyspace'}
    where = (PROTO, 'PrepareMessage.send_body', send_body.lineno)
    for v in M.versions:
        for st in TRI:
            val = {'self.keyspace': st}
            it = Interp(M.proto, M.folder, valuation=val, effect=M.effect)
            outs = it.run_all(send_body, {'self': Sym('self'), 'f': Sym('f'), 'protocol_version': v, '__owner__': owner}, cls)
            for out in outs:
                construct = 'PrepareMessage.send_body @ v=%#x keyspace=%s' % (v, st)
                if st == TRUTHY and not spec.keyspace_supported(v):
                    chk.judge(out.kind == 'raise' and out.exc == 'UnsupportedOperation', 'C03.reject', where, construct,
                              'keyspace requested on a version without the keyspace flag but send_body does not raise UnsupportedOperation')
                    continue
                if out.kind == 'raise':
                    chk.judge(st != NONE and not spec.keyspace_supported(v), 'C03.reject', where, construct + ' raises',
                              'send_body raises %s for a supported request' % out.exc)
                    continue
                fields = flat_fields(out.events)
                flags_f = [f for f in fields if f[1] == 'flags']
                present = set()
                if spec.prepare_flags_supported(v):
                    if len(flags_f) != 1 or not isinstance(flags_f[0][2], int):
                        chk.viol('C03.flagfield', where, construct, 'no single concrete <flags> field')
                        continue
                    if flags_f[0][2] & kflag:
                        present.add('keyspace')
                    if st == TRUTHY:
                        chk.judge('keyspace' in present, 'C03.carry', where, construct + ': carries keyspace',
                                  'keyspace is set and supported but its flag is not set')
                probs = match_layout(chk, 'C03.layout', where, construct, fields, spec.prepare_body(v, present), roles)
                chk.judge(not probs, 'C03.layout', where, construct,
                          'body differs from the specification (flag set <=> field written): %s; driver body = [%s]'
                          % ('; '.join(probs), show_fields(fields)))


def check_batch(chk, M, spec):
    cls = M.proto.cls('BatchMessage')
    interp0 = Interp(M.proto, M.folder, effect=M.effect)
    send_body, owner = interp0.resolve_method(cls, 'send_body')
    if send_body is None:
        raise AnalysisError('anchor vanished: BatchMessage.send_body')
    opts = [('serial_consistency', 'self.serial_consistency_level', '_WITH_SERIAL_CONSISTENCY_FLAG', (TRUTHY,)),
            ('timestamp', 'self.timestamp', '_PROTOCOL_TIMESTAMP_FLAG', (FALSY, TRUTHY)),
            ('keyspace', 'self.keyspace', '_WITH_KEYSPACE_FLAG', (TRUTHY,))]
    flagvals = dict((o[0], M.folder.module_const(o[2])) for o in opts)
    for o in opts:
        chk.judge(flagvals[o[0]] == spec.BATCH_FLAGS[o[0]], 'C03.flagbits', (PROTO, '<module>', 0),
                  'batch %s == %#x' % (o[2], spec.BATCH_FLAGS[o[0]]), 'flag %s is %#x' % (o[2], flagvals[o[0]]))
    roles = {'self.batch_type.value': 'batch_type', 'len(self.queries)': 'n_queries', 'len(params)': 'n_values',
             'param': 'value', 'self.consistency_level': 'consistency', 'flags': 'flags',
             'self.serial_consistency_level': 'serial_consistency', 'self.timestamp': 'timestamp',
             'self.keyspace': 'keyspace', 'string_or_query_id': 'query', '0': 'kind', '1': 'kind',
             'len(string_or_query_id)': 'query_id_len'}
    where = (PROTO, 'BatchMessage.send_body', send_body.lineno)
    for v in M.versions:
        if v < 2:
            continue
        for combo in itertools.product(TRI, repeat=3):
            val = dict(zip([o[1] for o in opts], combo))
            val['self.queries'] = TRUTHY
            it = Interp(M.proto, M.folder, valuation=val, effect=M.effect)
            outs = it.run_all(send_body, {'self': Sym('self'), 'f': Sym('f'), 'protocol_version': v, '__owner__': owner}, cls)
            for out in outs:
                construct = 'BatchMessage.send_body @ v=%#x %s %s' % (
                    v, ','.join('%s=%s' % (k.split('.')[-1], s) for k, s in sorted(val.items()) if s != NONE and k != 'self.queries'),
                    ','.join('%s=%s' % c for c in out.choices))
                if val['self.keyspace'] == TRUTHY and not spec.keyspace_supported(v) and v >= 3:
                    chk.judge(out.kind == 'raise' and out.exc == 'UnsupportedOperation', 'C03.reject', where, construct,
                              'keyspace requested on a version without the keyspace flag but BATCH does not raise UnsupportedOperation')
                    continue
                if out.kind == 'raise':
                    chk.judge(val['self.keyspace'] != NONE and not spec.keyspace_supported(v), 'C03.reject', where,
                              construct + ' raises', 'send_body raises %s for a supported request' % out.exc)
                    continue
                fields = flat_fields(out.events)
                top = [f for f in fields if f[0] != 'assume']
                flags_f = [f for f in top if f[1] == 'flags']
                present = set()
                if v >= 3:
                    if len(flags_f) != 1 or not isinstance(flags_f[0][2], int):
                        chk.viol('C03.flagfield', where, construct, 'no single concrete <flags> field')
                        continue
                    present = set(o[0] for o in opts if flags_f[0][2] & flagvals[o[0]])
                    for o in opts:
                        if val[o[1]] in o[3] and (o[0] != 'keyspace' or spec.keyspace_supported(v)):
                            chk.judge(o[0] in present, 'C03.carry', where, '%s: carries %s' % (construct, o[0]),
                                      'option %s is set and supported but its flag is not set' % o[0])
                want = spec.batch_body(v, present)
                # per-query alternative: discriminator byte then long string / short bytes
                probs = []
                qloop = [f for f in top if f[0] == 'loop']
                if not qloop:
                    probs.append('no per-query loop')
                else:
                    q = [f for f in qloop[0][1] if f[0] != 'assume']
                    if not q or q[0][0] != 'byte' or q[0][1] not in ('0', '1'):
                        probs.append('query kind byte is not a literal 0/1: %s' % (q[0][:2] if q else None))
                    else:
                        kind = int(q[0][1])
                        rest = q[1:]
                        if kind == 0:
                            if not rest or rest[0][0] != 'long string':
                                probs.append('kind 0 must be followed by [long string] query, found %s' % (rest[0][:2] if rest else None))
                            rest = rest[1:]
                        else:
                            if len(rest) >= 2 and rest[0][0] == 'short' and rest[0][1] == 'len(string_or_query_id)' and rest[1][0] == 'raw' \
                                    and rest[1][1] == 'string_or_query_id':
                                rest = rest[2:]
                            elif rest and rest[0][0] == 'string':
                                rest = rest[1:]
                            else:
                                probs.append('kind 1 must be followed by [short bytes] id, found %s' % show_fields(rest[:2]))
                        if len(rest) != 2 or rest[0][0] != 'short' or rest[0][1] != 'len(params)' or rest[1][0] != 'loop' \
                                or [x[0] for x in rest[1][1]] != ['value']:
                            probs.append('per-query values must be [short n][value]*, found %s' % show_fields(rest))
                    # replace the loop by a marker for top-level comparison
                    top2 = []
                    for f in top:
                        if f is qloop[0]:
                            continue
                        top2.append(f)
                    want2 = [w for w in want if not (w[0] == 'loop')]
                    probs.extend(match_layout(chk, 'C03.layout', where, construct, top2, want2, roles))
                    # position of the loop: after n_queries
                    idx = top.index(qloop[0])
                    if idx != 2:
                        probs.append('query loop is field %d, expected right after <n>' % idx)
                chk.judge(not probs, 'C03.layout', where, construct,
                          'BATCH body differs from the specification: %s; driver body = [%s]' % ('; '.join(probs), show_fields(fields)))


def check_simple(chk, M, spec):
    table = [
        ('StartupMessage', 'STARTUP', None, None),
        ('OptionsMessage', 'OPTIONS', {}, None),
        ('AuthResponseMessage', 'AUTH_RESPONSE', {'self.response': 'token'}, None),
        ('RegisterMessage', 'REGISTER', {'self.event_list': 'event_types'}, None),
        ('CredentialsMessage', 'CREDENTIALS', {'len(self.creds)': 'n', 'credkey': 'key', 'credval': 'value'}, 1),
    ]
    for clsname, name, roles, only_v in table:
        cls = M.proto.cls(clsname)
        it0 = Interp(M.proto, M.folder, effect=M.effect)
        send_body, owner = it0.resolve_method(cls, 'send_body')
        if send_body is None:
            raise AnalysisError('anchor vanished: %s.send_body' % clsname)
        where = (PROTO, '%s.send_body' % clsname, send_body.lineno)
        for v in M.versions:
            it = Interp(M.proto, M.folder, valuation={'self.creds': TRUTHY}, effect=M.effect)
            outs = it.run_all(send_body, {'self': Sym('self'), 'f': Sym('f'), 'protocol_version': v, '__owner__': owner}, cls)
            for out in outs:
                construct = '%s.send_body @ v=%#x' % (clsname, v)
                if only_v is not None and v != only_v:
                    chk.judge(out.kind == 'raise' and out.exc == 'UnsupportedOperation', 'C03.reject', where, construct,
                              '%s does not exist at this protocol version but send_body does not raise' % name)
                    continue
                if out.kind == 'raise':
                    chk.viol('C03.layout', where, construct, 'send_body raises %s' % out.exc)
                    continue
                fields = flat_fields(out.events)
                probs = match_layout(chk, 'C03.layout', where, construct, fields, spec.SIMPLE_BODIES[name], roles or {},
                                     strict_roles=roles is not None)
                if clsname == 'StartupMessage':
                    sets = [e for e in out.events if e[0] == 'setitem' and e[2] == "'CQL_VERSION'"]
                    if not sets or sets[0][3] != 'self.cqlversion':
                        probs.append('the CQL_VERSION entry of the STARTUP map is not set from self.cqlversion')
                chk.judge(not probs, 'C03.layout', where, construct,
                          'body differs from the specification: %s; driver body = [%s]' % ('; '.join(probs), show_fields(fields)))
        # opcode
        opc = None
        for st in cls.body:
            if isinstance(st, ast.Assign) and isinstance(st.targets[0], ast.Name) and st.targets[0].id == 'opcode':
                opc = M.folder.eval(st.value)
        chk.judge(opc == spec.OPCODES[name], 'C03.opcode', (PROTO, clsname, cls.lineno), '%s.opcode == %#x' % (clsname, spec.OPCODES[name]),
                  'opcode of %s is %r, the specification says %#x' % (name, opc, spec.OPCODES[name]))
    for clsname, name in [('QueryMessage', 'QUERY'), ('PrepareMessage', 'PREPARE'), ('ExecuteMessage', 'EXECUTE'),
                          ('BatchMessage', 'BATCH'), ('ReviseRequestMessage', 'REVISE_REQUEST')]:
        cls = M.proto.cls(clsname)
        opc = None
        for st in cls.body:
            if isinstance(st, ast.Assign) and isinstance(st.targets[0], ast.Name) and st.targets[0].id == 'opcode':
                opc = M.folder.eval(st.value)
        chk.judge(opc == spec.OPCODES[name], 'C03.opcode', (PROTO, clsname, cls.lineno), '%s.opcode == %#x' % (clsname, spec.OPCODES[name]),
                  'opcode of %s is %r, the specification says %#x' % (name, opc, spec.OPCODES[name]))


def check_revise(chk, M, spec):
    """DSE private: presence/width/guard only."""
    cls = M.proto.cls('ReviseRequestMessage')
    it0 = Interp(M.proto, M.folder, effect=M.effect)
    send_body, owner = it0.resolve_method(cls, 'send_body')
    where = (PROTO, 'ReviseRequestMessage.send_body', send_body.lineno)
    for v in M.versions:
        for op, opname in ((1, 'PAGING_CANCEL'), (2, 'PAGING_BACKPRESSURE')):
            for np in (0, 5):
                it = Interp(M.proto, M.folder, effect=M.effect)
                env = {'self': Sym('self'), 'f': Sym('f'), 'protocol_version': v, '__owner__': owner,
                       'self.op_type': op, 'self.next_pages': np}
                outs = it.run_all(send_body, env, cls)
                for out in outs:
                    construct = 'ReviseRequestMessage.send_body @ v=%#x op=%s next_pages=%d' % (v, opname, np)
                    if op == 2 and (np <= 0 or not spec.continuous_paging_next_pages(v)):
                        chk.judge(out.kind == 'raise' and out.exc == 'UnsupportedOperation', 'C03.reject', where, construct,
                                  'backpressure revision that the version/arguments cannot carry is not rejected')
                        continue
                    if out.kind == 'raise':
                        chk.viol('C03.layout', where, construct, 'raises %s' % out.exc)
                        continue
                    fields = [f for f in flat_fields(out.events) if f[0] != 'assume']
                    want = ['int', 'int'] + (['int'] if op == 2 else [])
                    chk.judge([f[0] for f in fields] == want, 'C03.layout', where, construct,
                              'REVISE_REQUEST body is %s, expected %s' % (show_fields(fields), want))


def check_primitives(chk, M, spec):
    """each write_* primitive reduces to the struct formats of the specification's notation."""
    fmts = {}
    for st in M.marshal.tree.body:
        if isinstance(st, ast.Assign) and isinstance(st.value, ast.Call) and (chain(st.value.func) or ('',))[-1] == '_make_packer' \
                and isinstance(st.targets[0], ast.Tuple):
            fmt = st.value.args[0].value if st.value.args and isinstance(st.value.args[0], ast.Constant) else None
            for t in st.targets[0].elts:
                fmts[t.id] = fmt
    if len(fmts) < 10:
        raise AnalysisError('marshal packers not recognised (found %d)' % len(fmts))
    # _make_packer itself: struct.Struct(format_string).pack
    mp = M.marshal.func('_make_packer')
    ok = any(isinstance(n, ast.Call) and (chain(n.func) or ('',))[-1] == 'Struct' and n.args and
             isinstance(n.args[0], ast.Name) and n.args[0].id == mp.args.args[0].arg for n in ast.walk(mp))
    chk.judge(ok, 'C03.prim', (MARSHAL, '_make_packer', mp.lineno), '_make_packer builds struct.Struct(format_string)',
              '_make_packer no longer packs with the given format string')

    def raw_events(fname, depth=0):
        """flatten a write_* function to raw pack events by inlining other write_* calls."""
        f = M.proto.func(fname)

        def eff(interp, call, c, args, kwargs, env):
            if c and len(c) == 1 and c[0].startswith('write_') and M.proto.has(c[0]) and c[0] != fname:
                sub = M.proto.func(c[0])
                params = [a.arg for a in sub.args.args]
                return interp.call_func(sub, dict(zip(params, args)), None)
            if c and c[-1] == 'write' and len(args) == 1:
                interp.events.append(('raw', text_of(args[0])))
                return None
            if c and len(c) == 1 and c[0].endswith('_pack'):
                return Sym('%s(%s)' % (c[0], ', '.join(text_of(a) for a in args)))
            if c and c[-1] == 'encode':
                # the encoded bytes are a different value (and length) than the text they come from
                return Sym('encoded(%s)' % text_of(interp.eval(call.func.value, env)))
            return NotImplemented
        it = Interp(M.proto, M.folder, effect=eff)
        params = [a.arg for a in f.args.args]
        return f, it.run_all(f, dict((p, Sym(p)) for p in params), None)

    def packs(evs):
        out = []
        for e in evs:
            if e[0] == 'raw':
                t = e[1]
                if '_pack(' in t:
                    name = t.split('(')[0]
                    out.append((fmts.get(name, '?' + name), t[len(name) + 1:-1]))
                else:
                    out.append(('bytes', t))
            elif e[0] in ('loop', 'endloop'):
                out.append((e[0],))
        return out

    expect = {
        'write_byte': [[('>B', 'b')]],
        'write_short': [[('>H', 's')]],
        'write_int': [[('>i', 'i')]],
        'write_uint': [[('>I', 'i')]],
        'write_long': [[('>q', 'i')], [('>Q', 'i')]],
        'write_consistency_level': [[('>H', 'cl')]],
        'write_string': [[('>H', 'len(s)'), ('bytes', 's')]],
        'write_longstring': [[('>i', 'len(s)'), ('bytes', 's')]],
        'write_stringlist': [[('>H', 'len(stringlist)'), ('loop',), ('>H', 'len(s)'), ('bytes', 's'), ('endloop',)]],
    }
    for fname, alts in sorted(expect.items()):
        f, outs = raw_events(fname)
        where = (PROTO, fname, f.lineno)
        for out in outs:
            got = packs(out.events)
            # parameter names may differ: compare formats and shapes, and that the length prefix is len(<the bytes written>)
            shape = [g[0] for g in got]
            okshape = any(shape == [a[0] for a in alt] for alt in alts)
            oklen = True
            for i, g in enumerate(got):
                if g[0] in ('>H', '>i') and i + 1 < len(got) and got[i + 1][0] == 'bytes' and g[1].startswith('len('):
                    oklen = oklen and g[1] == 'len(%s)' % got[i + 1][1]
            chk.judge(out.kind == 'ok' and okshape and oklen, 'C03.prim', where,
                      '%s -> %s %s' % (fname, got, ','.join('%s=%s' % c for c in out.choices)),
                      'primitive %s writes %s, the notation requires %s (length prefix = len of the bytes written)' % (fname, got, alts))
    # write_value: None -> -1, _UNSET_VALUE -> -2, else len + bytes
    f, outs = raw_events('write_value')
    where = (PROTO, 'write_value', f.lineno)
    rows = {}
    for out in outs:
        key = tuple((c[0], c[1]) for c in out.choices)
        rows[key] = packs(out.events)
    p = f.args.args[1].arg
    want_rows = {
        ((p + ' is None', True),): [('>i', '-1')],
        ((p + ' is None', False), (p + ' is _UNSET_VALUE', True)): [('>i', '-2')],
        ((p + ' is None', False), (p + ' is _UNSET_VALUE', False)): [('>i', 'len(%s)' % p), ('bytes', p)],
    }
    chk.judge(rows == want_rows, 'C03.prim', where, 'write_value decision table',
              'write_value must write int -1 for None, int -2 for the unset marker, else int length then the bytes; found %s' % rows)


def check_header(chk, M, spec):
    hcls = M.proto.cls('_ProtocolHandler')
    it0 = Interp(M.proto, M.folder, effect=M.effect)
    enc, owner = it0.resolve_method(hcls, 'encode_message')
    wh, _ = it0.resolve_method(hcls, '_write_header')
    if enc is None or wh is None:
        raise AnalysisError('anchor vanished: _ProtocolHandler.encode_message/_write_header')
    # header struct formats
    fm = {}
    for st in M.marshal.tree.body:
        if isinstance(st, ast.Assign) and isinstance(st.targets[0], ast.Name) and isinstance(st.value, ast.Call) \
                and (chain(st.value.func) or ('',))[-1] == 'Struct' and st.value.args and isinstance(st.value.args[0], ast.Constant):
            fm[st.targets[0].id] = st.value.args[0].value
    packs = {}
    for st in M.marshal.tree.body:
        if isinstance(st, ast.Assign) and isinstance(st.targets[0], ast.Name) and isinstance(st.value, ast.Attribute) \
                and st.value.attr == 'pack' and isinstance(st.value.value, ast.Name) and st.value.value.id in fm:
            packs[st.targets[0].id] = fm[st.value.value.id]
    for name, val in spec.HEADER_FLAGS.items():
        try:
            got = M.folder.module_const(name)
        except Unfoldable:
            raise AnalysisError('anchor vanished: %s' % name)
        chk.judge(got == val, 'C03.flagbits', (PROTO, '<module>', 0), '%s == %#x' % (name, val), 'header flag %s is %#x' % (name, got))
    where = (PROTO, '_ProtocolHandler.encode_message', enc.lineno)
    for v in M.versions:
        for cp in TRI:
            val = {'msg.custom_payload': cp, 'msg.tracing': TRUTHY, 'compressor': TRUTHY}
            it = Interp(M.proto, M.folder, valuation=val, effect=M.effect)
            env = {'cls': Sym('cls'), 'msg': Sym('msg'), 'stream_id': Sym('stream_id'), 'protocol_version': v,
                   'compressor': TriVal('compressor', TRUTHY), 'allow_beta_protocol_version': Sym('allow_beta_protocol_version'),
                   '__owner__': owner}
            outs = it.run_all(enc, env, hcls)
            for out in outs:
                construct = 'encode_message @ v=%#x custom_payload=%s %s' % (v, cp, ','.join('%s=%s' % c for c in out.choices))
                if cp == TRUTHY and not spec.OPTION_MIN['custom_payload'](v):
                    chk.judge(out.kind == 'raise' and out.exc == 'UnsupportedOperation', 'C03.reject', where, construct,
                              'custom payload on a version below 4 is not rejected')
                    continue
                if out.kind == 'raise':
                    chk.viol('C03.header', where, construct, 'encode_message raises %s' % out.exc)
                    continue
                evs = [e for e in out.events if e[0] in ('w', 'raw')]
                # expected tail: raw pack(version, flags, stream_id, opcode); write_int(len(body)); raw body
                hdr = [e for e in evs if e[0] == 'raw' and '_pack(' in e[1]]
                probs = []
                if len(hdr) != 1:
                    probs.append('expected exactly one header pack, found %d' % len(hdr))
                else:
                    name = hdr[0][1].split('(')[0]
                    fmt = packs.get(name)
                    want = spec.HEADER_FORMAT['v3+' if v >= 3 else 'v1v2']
                    if fmt != want:
                        probs.append('header packed with %s=%r, the specification requires %r at this version' % (name, fmt, want))
                    hargs = hdr[0][1][len(name) + 1:-1].split(', ')
                    if len(hargs) != 4 or hargs[0] != repr(v) or hargs[2] != 'stream_id' or hargs[3] != 'msg.opcode':
                        probs.append('header fields are %s, expected (version, flags, stream_id, msg.opcode)' % hargs)
                    i = evs.index(hdr[0])
                    tail = evs[i + 1:]
                    if len(tail) != 2 or tail[0][0] != 'w' or tail[0][1] != 'write_int' or tail[1][0] != 'raw':
                        probs.append('header must be followed by write_int(length) and the body, found %s' % [t[:3] for t in tail])
                    elif tail[0][2] != 'len(%s)' % tail[1][1]:
                        probs.append('length field is %s but the bytes written next are %s' % (tail[0][2], tail[1][1]))
                    # custom payload flag <=> bytes map written before the body
                    cpw = [e for e in evs if e[0] == 'w' and e[1] == 'write_bytesmap']
                    flags_txt = hargs[1] if len(hargs) == 4 else ''
                    try:
                        flags_val = int(flags_txt)
                    except ValueError:
                        flags_val = None
                    if flags_val is None:
                        probs.append('header flags not concrete: %s' % flags_txt)
                    else:
                        has = bool(flags_val & spec.HEADER_FLAGS['CUSTOM_PAYLOAD_FLAG'])
                        if has != bool(cpw):
                            probs.append('custom payload flag %s but payload map %s' % ('set' if has else 'clear', 'written' if cpw else 'not written'))
                        if cp == TRUTHY and not has:
                            probs.append('custom payload requested but flag not set')
                        if not (flags_val & spec.HEADER_FLAGS['TRACING_FLAG']):
                            probs.append('tracing requested but TRACING flag not set')
                        comp = bool(flags_val & spec.HEADER_FLAGS['COMPRESSED_FLAG'])
                        compressed = any(c[0].startswith('len(body) > 0') or 'len(body)' in c[0] for c in out.choices if c[1])
                        if spec.checksumming(v) and comp:
                            probs.append('COMPRESSED flag set on a checksummed (v5) frame; compression belongs to the segment layer')
                chk.judge(not probs, 'C03.header', where, construct, '; '.join(probs))


def check(chk):
    chk.decides = ('field sequence, primitive widths, flag bits, flag<=>field agreement, must-reject arms and header '
                   'format/length of every request class, for every protocol version and three-valued option valuation')
    chk.does_not_decide = 'field contents (C30), string encodings, behaviour of user supplied payload objects'
    chk.rule('C03.layout', 'the interpreted body of send_body equals the specification layout for the options whose flag is set '
                           '(so a flag without its field, a field without its flag, a wrong width or a wrong order all differ)')
    chk.rule('C03.reject', 'an option requested (truthy) at a protocol version that cannot carry it makes send_body raise UnsupportedOperation; '
                           'a supported request never raises')
    chk.rule('C03.carry', 'an option that is set and supported has its flag set')
    chk.rule('C03.flagfield', 'exactly one concrete <flags> field is written and it carries only known bits')
    chk.rule('C03.flagbits', 'flag constants equal the specification bit values')
    chk.rule('C03.opcode', 'request opcodes equal the specification')
    chk.rule('C03.prim', 'write_* primitives reduce to the struct formats of the specification notation')
    chk.rule('C03.header', 'frame header format per version, length = len(body written next), payload/tracing flags')
    spec = load_spec()
    M = Machine(chk)
    chk.judge(set(M.versions) == set(spec.ALL_VERSIONS), 'C03.flagbits', (INIT, 'ProtocolVersion', 0),
              'SUPPORTED_VERSIONS', 'supported versions %s differ from the specification table %s' % (M.versions, spec.ALL_VERSIONS),
              nontrivial=False)
    for pred, fn in [('uses_int_query_flags', spec.int_query_flags), ('uses_prepare_flags', spec.prepare_flags_supported),
                     ('uses_prepared_metadata', spec.result_metadata_id_supported), ('uses_keyspace_flag', spec.keyspace_supported),
                     ('has_continuous_paging_support', spec.continuous_paging_supported),
                     ('has_continuous_paging_next_pages', spec.continuous_paging_next_pages),
                     ('has_checksumming_support', spec.checksumming)]:
        for v in M.versions:
            got = M.pv_pred(pred, v)
            chk.judge(bool(got) == bool(fn(v)), 'C03.flagbits', (INIT, 'ProtocolVersion.%s' % pred, 0),
                      'ProtocolVersion.%s(%#x) == %s' % (pred, v, fn(v)), 'predicate gives %s' % got)
    check_primitives(chk, M, spec)
    check_query_like(chk, M, spec, 'QueryMessage', spec.query_body)
    check_query_like(chk, M, spec, 'ExecuteMessage', spec.execute_body)
    check_prepare(chk, M, spec)
    check_batch(chk, M, spec)
    check_simple(chk, M, spec)
    check_revise(chk, M, spec)
    check_header(chk, M, spec)
    chk.require('C03.layout', 100)
    chk.require('C03.reject', 20)
    chk.require('C03.prim', 10)
    chk.require('C03.header', 8)
