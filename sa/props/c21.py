"""C21 - load-balancing plans reflect the live membership (structure of the event handlers and plans)."""
import ast

from ..core import AnalysisError, src, body_walk, walk_no_nested, chain
from ..cfg import CFG, Flow
from ..locks import held, holds
from .. import sem as _sem_mod

POL = 'cassandra/policies.py'
EVENTS = ('on_up', 'on_down', 'on_add', 'on_remove')
ADDS = ('on_up', 'on_add')


def set_effect(stmt, host='host'):
    """classify a statement as ADD / REMOVE of `host` on a copy-on-write collection, or IN-PLACE mutation."""
    if isinstance(stmt, ast.Assign):
        v = stmt.value
        if isinstance(v, ast.Call) and isinstance(v.func, ast.Attribute):
            arg = src(v.args[0]).replace(' ', '') if v.args else ''
            if v.func.attr == 'union' and arg in ('(%s,)' % host, '[%s]' % host, '{%s}' % host):
                return 'ADD'
            if v.func.attr == 'difference' and arg in ('(%s,)' % host, '[%s]' % host, '{%s}' % host):
                return 'REMOVE'
        if isinstance(v, ast.BinOp) and isinstance(v.op, ast.Add) and src(v.right).replace(' ', '') == '(%s,)' % host:
            return 'ADD'
        if isinstance(v, ast.ListComp) or (isinstance(v, ast.Call) and isinstance(v.func, ast.Name) and v.func.id in ('tuple', 'frozenset', 'list') and v.args
                                           and isinstance(v.args[0], (ast.GeneratorExp, ast.ListComp))):
            # a fresh collection of the others (a list is fresh too: what is stored is tuple(<that list>) or the list itself, never shared)
            g = v if isinstance(v, ast.ListComp) else v.args[0]
            if any(isinstance(c, ast.Compare) and isinstance(c.ops[0], ast.NotEq) and src(c.comparators[0]) == host for gen in g.generators for c in gen.ifs):
                return 'REMOVE'
    return None


def check(chk):
    chk.decides = ('each built-in policy adds the host on up/add and removes it on down/remove, under _hosts_lock, by assigning a fresh immutable collection '
                   '(plans read without the lock); membership tests of the white-list policy all use the resolved allow-list; every wrapper policy forwards '
                   'all four events; the slice that bounds remote hosts is the same in distance() and make_query_plan(); a plan is exactly one cycle over '
                   'the live hosts; filter plans yield only under the predicate; initial population accumulates per datacenter')
    chk.does_not_decide = 'plans over all event histories (runtime membership)'
    chk.rule('C21.effect', 'on_up/on_add ADD the host, on_down/on_remove REMOVE it, under _hosts_lock, copy-on-write')
    chk.rule('C21.whitelist', 'the white-list policy tests membership against the resolved allow-list in populate, distance, on_up and on_add')
    chk.rule('C21.forward', 'every wrapper policy forwards on_up/on_down/on_add/on_remove (and populate/distance) to its child with the same arguments')
    chk.rule('C21.slice', 'DC-aware: distance() and make_query_plan() bound remote hosts with the same slice; local hosts come first; one cycle, no repeats')
    chk.rule('C21.dc', 'DC-aware: the datacenter a host is filed under, looked up under and measured by is always _dc(host) (unknown datacenter counts as local)')
    chk.rule('C21.filter', 'HostFilterPolicy yields only hosts satisfying the predicate and reports the others IGNORED')
    chk.rule('C21.populate', 'populate groups hosts per datacenter by accumulation (no groupby over an unsorted iterable with per-group assignment)')
    pol = chk.repo.mod(POL)

    # ---- RoundRobin
    for ev in EVENTS:
        f = pol.func('RoundRobinPolicy.%s' % ev)
        effs = [(set_effect(st), st) for st in body_walk(f) if isinstance(st, ast.Assign) and src(st.targets[0]) == 'self._live_hosts']
        want = 'ADD' if ev in ADDS else 'REMOVE'
        good = len(effs) == 1 and effs[0][0] == want and holds(effs[0][1], ('self',), '_hosts_lock')
        chk.judge(good, 'C21.effect', f, 'RoundRobinPolicy.%s: %s host under _hosts_lock' % (ev, want),
                  '%s must %s the host in _live_hosts under the lock; found %s' % (ev, want, [(e, src(s)[:50]) for e, s in effs]))
    # no in-place mutation anywhere
    for cls, attr in (('RoundRobinPolicy', '_live_hosts'), ('DCAwareRoundRobinPolicy', '_dc_live_hosts')):
        c = pol.cls(cls)
        muts = [n for n in ast.walk(c) if isinstance(n, ast.Call) and isinstance(n.func, ast.Attribute) and n.func.attr in ('add', 'remove', 'discard', 'append', 'extend', 'insert', 'pop')
                and (src(n.func.value) == 'self.%s' % attr or src(n.func.value).startswith('self.%s[' % attr))]
        # removing a whole datacenter entry from the dict under the lock (`del d[dc]` / `d.pop(dc, ...)`) is the policy's own idiom: plans read a copy of the keys
        muts = [n for n in muts if not (attr == '_dc_live_hosts' and n.func.attr == 'pop' and src(n.func.value) == 'self._dc_live_hosts' and holds(n, ('self',), '_hosts_lock'))]
        chk.judge(not muts, 'C21.effect', c, '%s.%s is only replaced, never mutated in place' % (cls, attr),
                  'in-place mutation %s while plans iterate the collection without the lock' % [src(m)[:40] for m in muts])
    rr = pol.func('RoundRobinPolicy.make_query_plan')
    s = src(rr)
    chk.judge('islice(cycle(hosts), pos, pos + length)' in s and 'length = len(hosts)' in s and 'hosts = self._live_hosts' in s, 'C21.slice', rr,
              'round robin plan: one full cycle over a snapshot of the live hosts', 'round-robin plan no longer covers exactly the live hosts once')

    # ---- DCAware
    up = pol.func('DCAwareRoundRobinPolicy.on_up')
    dn = pol.func('DCAwareRoundRobinPolicy.on_down')
    ups = [st for st in body_walk(up) if isinstance(st, ast.Assign) and src(st.targets[0]) == 'self._dc_live_hosts[dc]']
    good = len(ups) == 1 and set_effect(ups[0]) == 'ADD' and holds(ups[0], ('self',), '_hosts_lock')
    if good:
        from ..core import parent
        p = parent(ups[0])
        good = isinstance(p, ast.If) and src(p.test) == 'host not in current_hosts'
    chk.judge(good, 'C21.effect', up, 'DCAware.on_up: append host to its DC tuple unless present, under _hosts_lock', 'DC-aware on_up changed: %s' % [src(u)[:60] for u in ups])
    chk.judge('dc = self._dc(host)' in src(up) and "current_hosts = self._dc_live_hosts.get(dc, ())" in src(up), 'C21.effect', up, 'host filed under its own datacenter', 'datacenter key changed')
    dns = [st for st in body_walk(dn) if isinstance(st, ast.Assign) and src(st.targets[0]) in ('hosts', 'self._dc_live_hosts[dc]')]
    removed = any(set_effect(st) == 'REMOVE' for st in dns)
    if not removed:
        # the same filter written as a loop: for h in current_hosts: if h != host: keep.append(h) ... self._dc_live_hosts[dc] = tuple(keep)
        for lp_ in [n for n in body_walk(dn) if isinstance(n, ast.For) and src(n.iter) == 'current_hosts' and isinstance(n.target, ast.Name) and len(n.body) == 1 and isinstance(n.body[0], ast.If)]:
            t_, b_ = lp_.body[0].test, lp_.body[0].body
            if not lp_.body[0].orelse and src(t_) in ('%s != host' % lp_.target.id, 'host != %s' % lp_.target.id) and len(b_) == 1 and isinstance(b_[0], ast.Expr) \
                    and isinstance(b_[0].value, ast.Call) and isinstance(b_[0].value.func, ast.Attribute) and b_[0].value.func.attr == 'append' and [src(a_) for a_ in b_[0].value.args] == [lp_.target.id]:
                keep_ = src(b_[0].value.func.value)
                removed = any(src(st.targets[0]) == 'self._dc_live_hosts[dc]' and src(st.value) in ('tuple(%s)' % keep_, keep_) for st in dns) and holds(lp_, ('self',), '_hosts_lock')
    good = removed and all(holds(st, ('self',), '_hosts_lock') for st in dns) and 'del self._dc_live_hosts[dc]' in src(dn)
    chk.judge(good, 'C21.effect', dn, 'DCAware.on_down: host filtered out of its DC tuple (empty DC dropped), under _hosts_lock', 'DC-aware on_down changed')
    for ev, tgt in (('on_add', 'self.on_up(host)'), ('on_remove', 'self.on_down(host)')):
        f = pol.func('DCAwareRoundRobinPolicy.%s' % ev)
        chk.judge(tgt in src(f), 'C21.effect', f, 'DCAware.%s delegates to %s' % (ev, tgt), '%s no longer updates the live set' % ev)
    dist = pol.func('DCAwareRoundRobinPolicy.distance')
    plan = pol.func('DCAwareRoundRobinPolicy.make_query_plan')
    sl_d = [src(n.slice) for n in body_walk(dist) if isinstance(n, ast.Subscript) and isinstance(n.slice, ast.Slice)]
    sl_p = [src(n.slice) for n in body_walk(plan) if isinstance(n, ast.Subscript) and isinstance(n.slice, ast.Slice)]
    chk.judge(sl_d == [':self.used_hosts_per_remote_dc'] and sl_p == [':self.used_hosts_per_remote_dc'], 'C21.slice', plan,
              'distance() and make_query_plan() both use [:used_hosts_per_remote_dc]', 'remote host bound differs: distance %s, plan %s' % (sl_d, sl_p))
    s = src(plan)
    good = 'islice(cycle(local_live), pos, pos + len(local_live))' in s and 'local_live = self._dc_live_hosts.get(self.local_dc, ())' in s and \
        'if dc != self.local_dc' in s and s.index('local_live') < s.index('other_dcs')
    chk.judge(good, 'C21.slice', plan, 'DC-aware plan: one cycle over local hosts first, then the bounded slice of each other DC', 'DC-aware plan order/coverage changed')
    sd = src(dist)
    gd = CFG(dist)
    fld = Flow(gd, 0, lambda n, c: c)
    okd = True
    seen_d = set()
    for r in [n for n in gd.nodes if n.kind == 'return']:
        v = src(r.ast.value)
        seen_d.add(v)
        for fa, _ in fld.at(r):
            if v == 'HostDistance.LOCAL':
                okd = okd and fa.knows('dc == self.local_dc') is True
            elif v == 'HostDistance.REMOTE':
                okd = okd and fa.knows('dc == self.local_dc') is False and fa.knows('self.used_hosts_per_remote_dc') is True and fa.knows('dc_hosts') is True \
                    and fa.knows('host in list(dc_hosts)[:self.used_hosts_per_remote_dc]') is True
            elif v == 'HostDistance.IGNORED':
                okd = okd and fa.knows('dc == self.local_dc') is False and (fa.knows('self.used_hosts_per_remote_dc') is False or fa.knows('dc_hosts') is False
                                                                        or fa.knows('host in list(dc_hosts)[:self.used_hosts_per_remote_dc]') is False)
            else:
                okd = False
    chk.judge(okd and seen_d == set(['HostDistance.LOCAL', 'HostDistance.REMOTE', 'HostDistance.IGNORED']), 'C21.slice', dist,
              'distance: LOCAL for the local DC; REMOTE for a host inside the bounded slice of its DC; IGNORED otherwise (branch facts at every return)', 'distance table changed')
    # the datacenter key: _dc(host) = host.datacenter or self.local_dc, and nothing else reads host.datacenter to pick a bucket or a distance
    dcf = pol.func('DCAwareRoundRobinPolicy._dc')
    rets_dc = [n for n in body_walk(dcf) if isinstance(n, ast.Return)]
    chk.judge(len(rets_dc) == 1 and src(rets_dc[0].value) == 'host.datacenter or self.local_dc', 'C21.dc', dcf, '_dc(host) = host.datacenter or self.local_dc', '_dc changed')
    for q, f in pol.functions():
        if not q.startswith('DCAwareRoundRobinPolicy.') or q.endswith('._dc'):
            continue
        for n in body_walk(f):
            if isinstance(n, ast.Attribute) and n.attr == 'datacenter' and isinstance(n.ctx, ast.Load):
                # allowed: inferring local_dc from a contact point (reads the raw value on purpose, guarded by `not self.local_dc`)
                from ..core import enclosing
                st = enclosing(n, (ast.stmt,))
                infer = isinstance(st, ast.If) and 'not self.local_dc' in src(st.test) or (isinstance(st, ast.Assign) and src(st.targets[0]) == 'self.local_dc')
                if not infer:
                    # where the path knows the datacenter is set, host.datacenter and _dc(host) are the same value
                    from .. import sem as _sem
                    g_, fl_ = _sem.flow_of(f)
                    nd = _sem.node_of(g_, n)
                    infer = nd is not None and _sem.knows_all(fl_, nd, src(n))
                chk.judge(bool(infer), 'C21.dc', n, '%s reads %s only to infer local_dc' % (q, src(n)),
                          '%s uses the raw %s where every other place uses _dc(host): a host whose datacenter is still unknown is filed / planned as local '
                          'but measured or looked up under None' % (q, src(n)))
    pop = pol.func('DCAwareRoundRobinPolicy.populate')
    gb = [n for n in body_walk(pop) if isinstance(n, ast.Call) and src(n.func).endswith('groupby')]
    bad_gb = [g for g in gb if not (g.args and isinstance(g.args[0], ast.Call) and src(g.args[0].func) == 'sorted')]
    assigns = [st for st in body_walk(pop) if isinstance(st, ast.Assign) and src(st.targets[0]).startswith('self._dc_live_hosts[')]
    chk.judge(not bad_gb and bool(assigns), 'C21.populate', pop, 'populate accumulates hosts per datacenter before assigning',
              'itertools.groupby over an unsorted host list with one assignment per group: hosts of an interleaved datacenter overwrite each other and are lost')
    chk.judge('self._dc(host)' in src(pop) or 'self._dc(h)' in src(pop), 'C21.populate', pop, 'hosts keyed by _dc(host) (same key as the event handlers)', 'populate keys hosts differently from on_up/on_down')

    # ---- WhiteList
    wl = pol.cls('WhiteListRoundRobinPolicy')
    tests = {}
    for f in wl.body:
        if isinstance(f, ast.FunctionDef) and f.name in ('populate', 'distance', 'on_up', 'on_add'):
            colls = set()
            for n in body_walk(f):
                if isinstance(n, ast.Compare) and isinstance(n.ops[0], ast.In) and 'address' in src(n.left):
                    colls.add(src(n.comparators[0]))
            tests[f.name] = colls
    for name in ('populate', 'distance', 'on_up', 'on_add'):
        chk.judge(tests.get(name) == set(['self._allowed_hosts_resolved']), 'C21.whitelist', wl, 'WhiteList.%s tests host.address in _allowed_hosts_resolved' % name,
                  '%s tests membership against %s; the other methods use the resolved addresses, so a host allowed by name is reported LOCAL but never enters a plan (or vice versa)'
                  % (name, sorted(tests.get(name, []))))
    for ev in ('on_up', 'on_add'):
        own_ = [x for x in wl.body if isinstance(x, ast.FunctionDef) and x.name == ev]
        if not own_:
            chk.viol('C21.whitelist', wl, 'WhiteList.%s filters before it adds' % ev,
                     'WhiteListRoundRobinPolicy does not define %s: it inherits the unfiltered handler of RoundRobinPolicy, so a host outside the white list enters the live set (and the plans) while distance() reports it IGNORED' % ev)
            continue
        f = own_[0]
        chk.judge('RoundRobinPolicy.%s(self, host)' % ev in src(f), 'C21.whitelist', f, 'WhiteList.%s adds through RoundRobinPolicy.%s' % (ev, ev), 'white-list %s no longer adds the host' % ev)
    for ev in ('on_down', 'on_remove'):
        own = any(isinstance(f, ast.FunctionDef) and f.name == ev for f in wl.body)
        chk.judge(not own, 'C21.whitelist', wl, 'WhiteList inherits %s (removal needs no filter)' % ev, 'white-list overrides %s' % ev, nontrivial=False)

    # ---- wrappers
    wrappers = [c for q, c in pol.classes() if '.' not in q and any(
        isinstance(n, ast.Attribute) and n.attr == '_child_policy' for n in ast.walk(c))]
    names = sorted(c.name for c in wrappers)
    if len(names) < 4:
        raise AnalysisError('wrapper policies not found: %s' % names)
    for c in wrappers:
        base_is_wrapper = any((chain(b) or ('',))[-1] in names for b in c.bases)
        for ev in EVENTS:
            f = [x for x in c.body if isinstance(x, ast.FunctionDef) and x.name == ev]
            if not f:
                chk.judge(base_is_wrapper, 'C21.forward', c, '%s.%s inherited from a forwarding wrapper' % (c.name, ev),
                          '%s wraps a child policy but does not forward %s: the child never learns about the event' % (c.name, ev), nontrivial=False)
                continue
            calls = [n for n in body_walk(f[0]) if isinstance(n, ast.Call) and src(n.func) == 'self._child_policy.%s' % ev]
            params = [a.arg for a in f[0].args.args[1:]]
            good = len(calls) == 1
            if good:
                passed = [src(a) for a in calls[0].args] + ['**' + src(k.value) for k in calls[0].keywords if k.arg is None]
                want = params + (['*' + f[0].args.vararg.arg] if f[0].args.vararg else []) + (['**' + f[0].args.kwarg.arg] if f[0].args.kwarg else [])
                good = passed == want
            chk.judge(good, 'C21.forward', f[0], '%s.%s forwards to the child with its own arguments' % (c.name, ev), '%s.%s does not forward the event unchanged' % (c.name, ev))
    chk.require('C21.forward', 12)

    # ---- filter
    hf = pol.func('HostFilterPolicy.make_query_plan')
    loops = [n for n in body_walk(hf) if isinstance(n, ast.For)]
    good = len(loops) == 1 and len(loops[0].body) == 1 and isinstance(loops[0].body[0], ast.If) and src(loops[0].body[0].test) == 'self.predicate(host)' \
        and isinstance(loops[0].body[0].body[0], ast.Expr) and isinstance(loops[0].body[0].body[0].value, ast.Yield) and src(loops[0].body[0].body[0].value.value) == 'host'
    chk.judge(good, 'C21.filter', hf, 'HostFilterPolicy plan yields host only if predicate(host)', 'filter plan can yield an excluded host')
    hd = pol.func('HostFilterPolicy.distance')
    g = CFG(hd)
    fl = Flow(g, 0, lambda n, c: c)
    ok = True
    for n in g.stmt_nodes():
        if n.kind == 'return':
            for fa, _ in fl.at(n):
                k = fa.knows('self.predicate(host)')
                if src(n.ast.value) == 'HostDistance.IGNORED':
                    ok = ok and k is False
                else:
                    ok = ok and k is True and src(n.ast.value) == 'self._child_policy.distance(host)'
    chk.judge(ok, 'C21.filter', hd, 'HostFilterPolicy.distance: IGNORED iff not predicate, else the child\'s distance', 'filter distance inconsistent with its plan')

    # ---- Default policy: the optional target host of a statement goes first, everything else is the child's plan
    chk.rule('C21.default', 'DefaultLoadBalancingPolicy: the target host is looked up only for a statement that names one, goes first only when it is up, and the rest is the child plan without it')
    dp = pol.func('DefaultLoadBalancingPolicy.make_query_plan')
    gd_, fld_ = _sem_mod.flow_of(dp)
    lookups = [c for c in body_walk(dp) if isinstance(c, ast.Call) and isinstance(c.func, ast.Attribute) and c.func.attr == 'get_host']
    if len(lookups) != 1 or len(lookups[0].args) != 1:
        raise AnalysisError('DefaultLoadBalancingPolicy.make_query_plan: target host lookup not recognised')
    arg = src(lookups[0].args[0])
    from ..core import parent as _par
    guarded = False
    p_ = _par(lookups[0])
    while p_ is not None and not isinstance(p_, ast.stmt):
        if isinstance(p_, ast.IfExp) and src(p_.test) == arg and any(x is lookups[0] for x in ast.walk(p_.body)):
            guarded = True
        if isinstance(p_, ast.BoolOp) and isinstance(p_.op, ast.And) and src(p_.values[0]) == arg:
            guarded = True
        p_ = _par(p_)
    if not guarded:
        nd_ = _sem_mod.node_of(gd_, lookups[0])
        guarded = nd_ is not None and _sem_mod.knows_all(fld_, nd_, arg) is True
    chk.judge(guarded, 'C21.default', lookups[0], 'metadata.get_host(%s) only when %s is set' % (arg, arg),
              'get_host(None) is evaluated for a statement without target host: the address scan matches the first host whose broadcast_rpc_address is still None (known, not yet refreshed) '
              'and, if it is up, the plan starts with it even when the child policy ignores it or it is beyond the remote quota')
    ys = [n for n in gd_.stmt_nodes() if n.kind == 'stmt' and isinstance(n.ast, ast.Expr) and isinstance(n.ast.value, ast.Yield)]
    first = [n for n in ys if src(n.ast.value.value) == 'target_host']
    okf = len(first) == 1 and all(fa.knows('target_host') is True and fa.knows('target_host.is_up') is True for fa, _c in fld_.at(first[0]))
    chk.judge(okf, 'C21.default', dp, 'the target host is yielded (once) only when it was found and is up', 'the target host is yielded although it is unknown or not up')
    rest = [n for n in ys if n not in first]
    okr = len(rest) == 2
    for n in rest:
        fas = list(fld_.at(n))
        with_target = all(fa.knows('target_host') is True and fa.knows('target_host.is_up') is True for fa, _c in fas)
        if with_target:
            okr = okr and all(fa.knows('h != target_host') is True or fa.knows('h == target_host') is False for fa, _c in fas)
        else:
            okr = okr and not any(fa.knows('h != target_host') is not None for fa, _c in fas)
        okr = okr and src(n.ast.value.value) == 'h'
    loops_d = [n for n in body_walk(dp) if isinstance(n, ast.For)]
    okr = okr and len(loops_d) == 2 and all(src(l.iter) in ('child.make_query_plan(keyspace, query)', 'self._child_policy.make_query_plan(keyspace, query)') for l in loops_d)
    chk.judge(okr, 'C21.default', dp, 'with a target: the child plan minus the target; without: the child plan as it is', 'the remainder of the plan is no longer the child plan (minus the target host)')
    # _dc(host) depends on self.local_dc: when local_dc is inferred later, the hosts filed under the old (unset) value move with it
    chk.rule('C21.infer', 'DC-aware: an assignment to self.local_dc outside __init__ is preceded, under _hosts_lock, by moving the bucket filed under the old value to the new key')
    n_inf = 0
    for q, f in pol.functions():
        if not q.startswith('DCAwareRoundRobinPolicy.') or q.endswith('.__init__'):
            continue
        for st in body_walk(f):
            if isinstance(st, ast.Assign) and any(src(t) == 'self.local_dc' for t in st.targets):
                n_inf += 1
                g_, fl_ = _sem_mod.flow_of(f)
                nd = _sem_mod.node_of(g_, st)
                removes = [n for n in g_.stmt_nodes() if n.kind == 'stmt' and g_.dominates(n, nd) and holds(n.ast, ('self',), '_hosts_lock') and (
                    (isinstance(n.ast, ast.Delete) and any(src(t) == 'self._dc_live_hosts[self.local_dc]' for t in n.ast.targets)) or
                    any(isinstance(c, ast.Call) and src(c.func) == 'self._dc_live_hosts.pop' and c.args and src(c.args[0]) == 'self.local_dc' for c in ast.walk(n.ast)))]
                refiles = [n for n in g_.stmt_nodes() if n.kind == 'stmt' and isinstance(n.ast, ast.Assign) and src(n.ast.targets[0]).startswith('self._dc_live_hosts[') and
                           src(n.ast.targets[0]) == 'self._dc_live_hosts[%s]' % src(st.value) and holds(n.ast, ('self',), '_hosts_lock') and n.ast.lineno < st.lineno]
                chk.judge(bool(removes) and bool(refiles), 'C21.infer', st, '%s: %s after the bucket of the old value was moved to %s' % (q, src(st), src(st.value)),
                          'local_dc changes but the hosts filed under the old value stay there: a second contact point whose datacenter is still unknown is looked up under the new '
                          'local_dc by on_down (not found), re-added by on_up and then appears twice in plans (once as local, once as "remote" of the unset datacenter)')
    if n_inf < 1:
        raise AnalysisError('C21.infer: the local_dc inference was not found')
    # a datacenter / rack change reaches the policies as down(old location) -> relocate -> up(new location)
    chk.rule('C21.relocate', 'the control connection brackets set_location_info with profile_manager.on_down / on_up, in that order, so that policies file the host under its old datacenter when removing it')
    chk.borrow('C42', {'C42.location': 'C21.relocate', 'C42.live': 'C21.relocate'}, 'the policy searches the new datacenter for the host, removes nothing and adds it a second time: duplicate / misplaced hosts in plans')
