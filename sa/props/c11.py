"""C11 - concurrent pushes reach the socket whole and in order (narrow: per-reactor structure)."""
import ast

from ..cfg import CFG, Flow
from ..core import AnalysisError, chain, src, body_walk, parent, walk_no_nested
from ..locks import held

ASYNCIO = 'cassandra/io/asyncioreactor.py'
TWISTED = 'cassandra/io/twistedreactor.py'
LIBEV = 'cassandra/io/libevreactor.py'
ASYNCORE = 'cassandra/io/asyncorereactor.py'


def chunk_loops(fn):
    out = []
    for n in body_walk(fn):
        if isinstance(n, ast.For) and isinstance(n.iter, ast.Call) and src(n.iter.func) == 'range' and len(n.iter.args) == 3:
            out.append(n)
    return out


def in_loop(node, fn):
    p = parent(node)
    while p is not None and p is not fn:
        if isinstance(p, (ast.For, ast.While, ast.AsyncFor)):
            return True
        p = parent(p)
    return False


def check_chunking(chk, fn, label):
    loops = chunk_loops(fn)
    if not loops:
        raise AnalysisError('%s: chunk loop not found' % label)
    for l in loops:
        a = l.iter.args
        i = src(l.target)
        step = src(a[2])
        sl = [n for n in ast.walk(l) if isinstance(n, ast.Subscript) and isinstance(n.slice, ast.Slice)]
        good = src(a[0]) == '0' and src(a[1]) == 'len(data)' and any(src(s.value) == 'data' and src(s.slice.lower) == i and src(s.slice.upper) == '%s + %s' % (i, step) for s in sl)
        chk.judge(good, 'C11.chunks', l, '%s: range(0, len(data), %s) with data[%s:%s + %s]' % (label, step, i, i, step),
                  'the chunk loop does not cover the message exactly (step %s, slices %s)' % (step, [src(s) for s in sl]))


def check(chk):
    chk.decides = ('per reactor: the chunk loop covers the message exactly; all chunks of one message are handed over / enqueued in one critical section '
                   'with no suspension point inside; one consumer drains the queue in FIFO order; twisted hands the whole message to a single transport.write; '
                   'the lock idiom used exists on supported Python versions')
    chk.does_not_decide = 'thread interleavings themselves'
    chk.rule('C11.chunks', 'chunk loop step and slice width agree and span the whole message')
    chk.rule('C11.atomic', 'all chunks of a message are enqueued inside one critical section, scheduled by a single hand-off, with no await inside')
    chk.rule('C11.idiom', 'the asyncio lock is taken with `async with` (the `with await lock` form was removed in Python 3.9)')
    chk.rule('C11.consumer', 'a single consumer takes chunks from the queue and writes them sequentially')
    chk.rule('C11.twisted', 'twisted: the whole message goes to one callFromThread(transport.write, data)')
    am = chk.repo.mod(ASYNCIO)
    push = am.func('AsyncioConnection.push')
    check_chunking(chk, push, 'AsyncioConnection.push')
    # single hand-off of the complete chunk list
    handoffs = [n for n in body_walk(push) if isinstance(n, ast.Call) and src(n.func) in ('asyncio.run_coroutine_threadsafe', 'self._loop.create_task')]
    if not handoffs:
        raise AnalysisError('AsyncioConnection.push: hand-off calls not found')
    for h in handoffs:
        arg = h.args[0] if h.args else None
        good = isinstance(arg, ast.Call) and src(arg.func) == 'self._push_msg' and len(arg.args) == 1 and src(arg.args[0]) == 'chunks' and not in_loop(h, push)
        chk.judge(good, 'C11.atomic', h, 'push: one hand-off of _push_msg(chunks) (%s)' % src(h.func),
                  'the chunks of one message are handed to the event loop separately (%s%s): another thread\'s chunks can be queued in between'
                  % (src(h)[:70], ', inside a loop' if in_loop(h, push) else ''))
    # every path through push performs exactly one hand-off: the two calls sit in the two arms of one if
    gp = CFG(push)

    def _count(node, c):
        if node.ast is not None and node.kind in ('stmt', 'return') and any(any(h is x for x in ast.walk(node.ast)) for h in handoffs):
            return min(c + 1, 2)
        return c
    per_path = set(c for _f, c in Flow(gp, 0, _count).at(gp.exit))
    chk.judge(per_path == set([1]) and len(handoffs) == 2, 'C11.atomic', push, 'push: exactly one hand-off of the chunk list on every path (loop thread vs other thread)',
              'a push hands off %s times on some path: a message that bypasses _push_msg (or is handed off twice) is not ordered with the other pushes' % sorted(per_path))
    # the write queue has one producer: every put is in _push_msg, behind the queue lock
    puts_all = [(q, n) for q, f in am.functions() for n in body_walk(f) if isinstance(n, ast.Call) and src(n.func).startswith('self._write_queue.put')]
    stray = [q for q, n in puts_all if q != 'AsyncioConnection._push_msg']
    chk.judge(bool(puts_all) and not stray, 'C11.atomic', push, 'chunks are put on the write queue only by _push_msg',
              'the write queue is also filled from %s, outside the queue lock and not ordered with the tasks already scheduled: a small message can overtake the chunks of an earlier one' % stray)
    flp = Flow(gp, 0, lambda n, c: c)
    okt = len(handoffs) == 2
    for h in handoffs:
        nd = [n for n in gp.stmt_nodes() if n.kind == 'stmt' and any(h is x for x in ast.walk(n.ast))]
        threadsafe = 'threadsafe' in src(h.func)
        okt = okt and len(nd) == 1 and all(fa.knows('self._loop_thread.ident == get_ident()') is (not threadsafe) for fa, _ in flp.at(nd[0]))
    chk.judge(okt, 'C11.atomic', push, 'threadsafe scheduling exactly when called off the loop thread', 'thread test changed')
    pm = am.func('AsyncioConnection._push_msg')
    chk.judge(isinstance(pm, ast.AsyncFunctionDef), 'C11.idiom', pm, '_push_msg is a coroutine', '_push_msg is not async')
    withs = [n for n in body_walk(pm) if isinstance(n, (ast.With, ast.AsyncWith))]
    legacy = [n for n in withs if isinstance(n, ast.With) and any(isinstance(i.context_expr, ast.Await) for i in n.items)]
    chk.judge(not legacy, 'C11.idiom', pm, '_push_msg does not use `with await <lock>`',
              '`with await self._write_queue_lock` raises TypeError on Python >= 3.9 (asyncio.Lock is not awaitable): nothing reaches the socket')
    aw = [n for n in withs if isinstance(n, ast.AsyncWith) and any(src(i.context_expr) == 'self._write_queue_lock' for i in n.items)]
    chk.judge(len(aw) == 1, 'C11.idiom', pm, '_push_msg: async with self._write_queue_lock', 'the queue lock is not taken with async with')
    if aw:
        puts = [n for n in body_walk(pm) if isinstance(n, ast.Call) and src(n.func).startswith('self._write_queue.put')]
        inside = all(any(p is x for x in ast.walk(aw[0])) for p in puts)
        awaits = [n for s in aw[0].body for n in ast.walk(s) if isinstance(n, (ast.Await, ast.AsyncFor, ast.AsyncWith, ast.Yield))]
        nowait = all(src(p.func) == 'self._write_queue.put_nowait' for p in puts)
        chk.judge(bool(puts) and inside and not awaits and nowait, 'C11.atomic', pm, '_push_msg: every put_nowait inside the lock region, no suspension point inside',
                  'chunks are enqueued %s' % ('outside the lock region' if not inside else 'with a suspension point inside the critical section (await / blocking put)'))
        loops = [n for n in aw[0].body if isinstance(n, ast.For) and src(n.iter) == 'chunks']
        chk.judge(len(loops) == 1, 'C11.atomic', pm, '_push_msg enqueues every chunk of the list in order', 'the chunk list is not iterated in order inside the lock')
    init = am.func('AsyncioConnection.__init__')
    s = src(init)
    chk.judge('self._write_queue = asyncio.Queue()' in s and 'self._write_queue_lock = asyncio.Lock()' in s, 'C11.consumer', init,
              'FIFO asyncio.Queue and one asyncio.Lock per connection', 'queue/lock construction changed')
    chk.judge(s.count('self.handle_write()') == 1, 'C11.consumer', init, 'one handle_write consumer is started', 'consumer is started %d times' % s.count('self.handle_write()'))
    hw = am.func('AsyncioConnection.handle_write')
    gets = [(q, n) for q, f in am.functions() for n in body_walk(f) if isinstance(n, ast.Call) and src(n.func) == 'self._write_queue.get']
    chk.judge(len(gets) == 1 and gets[0][0] == 'AsyncioConnection.handle_write', 'C11.consumer', hw, 'only handle_write takes from the queue',
              'queue consumers: %s' % [g[0] for g in gets])
    sh = src(hw)
    chk.judge('await self._write_queue.get()' in sh and 'await self._loop.sock_sendall(self._socket, next_msg)' in sh, 'C11.consumer', hw,
              'handle_write awaits each sendall before taking the next chunk', 'the consumer no longer sends chunks one after the other')

    # every byte of a chunk is written: complete-send primitives, or a partial send whose remainder is put back at the head of the queue
    chk.rule('C11.complete', 'socket writes in the reactors: sendall / sock_sendall / transport.write, or `n = send(chunk)` with `if n < len(chunk): appendleft(chunk[n:])`; a send() whose count is dropped loses the unsent tail')
    nsend = 0
    for rel in (ASYNCIO, TWISTED, LIBEV, ASYNCORE, 'cassandra/io/geventreactor.py', 'cassandra/io/eventletreactor.py'):
        m = chk.repo.mod(rel)
        for q, f in m.functions():
            for c in body_walk(f):
                if not (isinstance(c, ast.Call) and isinstance(c.func, ast.Attribute) and c.func.attr == 'send' and len(c.args) == 1 and src(c.func.value) in ('self', 'self._socket', 'sock', 'self.socket')):
                    continue
                nsend += 1
                st = parent(c)
                arg = src(c.args[0])
                ok = False
                if isinstance(st, ast.Assign) and isinstance(st.targets[0], ast.Name):
                    n_ = st.targets[0].id
                    ok = any(isinstance(x, ast.If) and src(x.test) == '%s < len(%s)' % (n_, arg) and
                             any(isinstance(y, ast.Call) and src(y.func).endswith('.appendleft') and src(y.args[0]) == '%s[%s:]' % (arg, n_) for y in ast.walk(x)) for x in body_walk(f))
                chk.judge(ok, 'C11.complete', c, '%s: %s - count kept, unsent tail re-queued at the head' % (q, src(c)),
                          'the number of bytes accepted by send() is not used: on a short write (full kernel buffer) the rest of the chunk is silently dropped and the peer receives a truncated frame')
        for q, f in m.functions():
            if q.endswith('.handle_write'):
                prim = [src(c.func) for c in body_walk(f) if isinstance(c, ast.Call) and isinstance(c.func, ast.Attribute) and c.func.attr in ('sendall', 'sock_sendall', 'send')]
                chk.judge(bool(prim), 'C11.complete', f, '%s writes through %s' % (q, sorted(set(prim))), 'no socket write found in %s' % q, nontrivial=False)
    if nsend < 2:
        raise AnalysisError('partial send sites: expected the asyncore and libev ones, found %d' % nsend)

    # the bytes of one message are assembled in storage no other sender can touch
    chk.rule('C11.private', 'send_msg assembles the outgoing bytes (v5 segments) in a buffer created in that call, never in state shared by the senders of a connection')
    cm = chk.repo.mod('cassandra/connection.py')
    sm = cm.func('Connection.send_msg')
    enc = [n for n in body_walk(sm) if isinstance(n, ast.Call) and isinstance(n.func, ast.Attribute) and n.func.attr == 'encode' and src(n.func.value) == 'self._segment_codec']
    if len(enc) != 1 or not enc[0].args:
        raise AnalysisError('send_msg: segment encoding call not found')
    buf = enc[0].args[0]
    defs = [a for a in body_walk(sm) if isinstance(a, ast.Assign) and isinstance(buf, ast.Name) and any(isinstance(t, ast.Name) and t.id == buf.id for t in a.targets)]
    fresh = isinstance(buf, ast.Name) and bool(defs) and all(isinstance(d.value, ast.Call) and src(d.value.func) in ('io.BytesIO', 'BytesIO') and not d.value.args for d in defs)
    chk.judge(fresh, 'C11.private', enc[0], 'send_msg: segments are encoded into a BytesIO created by this call',
              'the segment buffer %s is not created by the call that fills it (%s): two threads in send_msg write into the same buffer between encode and getvalue, '
              'so one message is sent twice and another is lost' % (src(buf), [src(d.value) for d in defs] or 'not a local'))

    # twisted
    tm = chk.repo.mod(TWISTED)
    tp = tm.func('TwistedConnection.push')
    calls = [n for n in body_walk(tp) if isinstance(n, ast.Call)]
    good = len(calls) == 1 and src(calls[0].func) == 'reactor.callFromThread' and [src(a) for a in calls[0].args] == ['self.transport.write', 'data'] and not in_loop(calls[0], tp)
    chk.judge(good, 'C11.twisted', tp, 'TwistedConnection.push: reactor.callFromThread(self.transport.write, data)',
              'the message is not handed to the reactor thread as one write: %s' % [src(c)[:60] for c in calls])

    # libev / asyncore (same interface, not usable on this interpreter but shipped)
    for rel, cls, lock in ((LIBEV, 'LibevConnection', 'self._deque_lock'), (ASYNCORE, 'AsyncoreConnection', 'self.deque_lock')):
        m = chk.repo.mod(rel)
        f = m.func('%s.push' % cls)
        check_chunking(chk, f, '%s.push' % cls)
        ext = [n for n in body_walk(f) if isinstance(n, ast.Call) and src(n.func) == 'self.deque.extend']
        good = len(ext) == 1 and src(ext[0].args[0]) == 'chunks' and any(src(i.context_expr) == lock for l, w in held(ext[0]) for i in w.items) and not in_loop(ext[0], f)
        chk.judge(good, 'C11.atomic', f, '%s.push: deque.extend(chunks) once under %s' % (cls, lock), 'chunks are appended outside one critical section')
    chk.require('C11.atomic', 6)
