"""C23 - built-in retry policies make bounded, consistency-safe decisions.

Level proof: the policy methods only *compare* their arguments, so the set of CFG
paths is a finite decision table; every path (row) is enumerated and every
assertion is checked on every row.  obligations = (row, assertion) pairs."""
import ast

from ..core import AnalysisError, src, body_walk, chain
from ..cfg import CFG, enumerate_paths
from ..guards import normalise_atom

LEVEL = 'proof'
POL = 'cassandra/policies.py'
METHODS = ('on_read_timeout', 'on_write_timeout', 'on_unavailable', 'on_request_error')
RETRYING = ('RETRY', 'RETRY_NEXT_HOST')


def _last_value(path, name):
    """the expression last assigned to a local on this path (plain `name = expr`), or None"""
    v = None
    for n in path.nodes:
        a = getattr(n, 'ast', None)
        if n.kind == 'stmt' and isinstance(a, ast.Assign) and len(a.targets) == 1 and isinstance(a.targets[0], ast.Name) and a.targets[0].id == name:
            v = a.value
    return v


def rows_of(func, inline=None):
    """[(conds {atom: bool}, decision, level expr text, raw conds)] for every path ending in a return."""
    out = []
    for p in enumerate_paths(CFG(func)):
        if p.end.kind != 'return':
            if p.end.kind in ('exit',):
                out.append(({}, None, None, p))
            continue
        conds = {}
        for e, pol in p.conds:
            k, flip = normalise_atom(e)
            conds[k] = (pol != flip)
        v = p.end.ast.value
        vals = []
        if isinstance(v, ast.IfExp):
            for arm, pol in ((v.body, True), (v.orelse, False)):
                c2 = dict(conds)
                k, flip = normalise_atom(v.test)
                c2[k] = (pol != flip)
                vals.append((c2, arm))
        else:
            vals.append((conds, v))
        for c, val in vals:
            if isinstance(val, ast.Call) and inline and src(val.func) in inline:
                arg = src(val.args[0]) if val.args else '?'
                for ic, dec, lvl, _ in inline[src(val.func)]:
                    c3 = dict(c)
                    for k, b in ic.items():
                        c3[k.replace('num_responses', arg)] = b
                    out.append((c3, dec, lvl, p))
                continue
            if isinstance(val, ast.Name):
                val = _last_value(p, val.id) or val
            if not (isinstance(val, ast.Tuple) and len(val.elts) == 2):
                raise AnalysisError('%s returns %s, not a (decision, level) pair' % (func.name, src(val)))
            # a local standing for the decision or the level is read as the value it was last given on this path
            e0 = _last_value(p, val.elts[0].id) if isinstance(val.elts[0], ast.Name) else None
            e1 = _last_value(p, val.elts[1].id) if isinstance(val.elts[1], ast.Name) else None
            e0, e1 = e0 or val.elts[0], e1 or val.elts[1]
            d = chain(e0)
            out.append((c, d[-1] if d else src(e0), src(e1), p))
    return out


def check(chk):
    chk.decides = ('for all inputs: the retry policies only compare their arguments, so the enumerated CFG paths are the complete decision table; on '
                   'every row: default policy retries only with retry_num == 0 and at the same level; fall-through never retries; never-retry never '
                   'retries timeouts/unavailable; downgrading tests for a serial level before any downgrade, picks THREE/TWO/ONE only with at least that '
                   'many responders, downgrades a read only when fewer replicas responded than required, and never names a level other than the requested one or a picked lower one')
    chk.does_not_decide = 'custom subclasses'
    chk.assumptions.append('for UNAVAILABLE the coordinator reports fewer alive replicas than required, and for a write timeout of an UNLOGGED_BATCH fewer '
                           'acknowledgements than required; a serial consistency level is never reported with write_type UNLOGGED_BATCH (CAS writes use write_type CAS)')
    chk.rule('C23.default', 'RetryPolicy: every row that retries has retry_num == 0; retried level is the requested one (or None for next host)')
    chk.rule('C23.fallthrough', 'FallthroughRetryPolicy: every row of every method is (RETHROW, None)')
    chk.rule('C23.never', 'NeverRetryPolicy: read/write timeout and unavailable rethrow')
    chk.rule('C23.pick', '_pick_consistency: THREE needs n>=3, TWO n>=2, ONE n>=1, else RETHROW')
    chk.rule('C23.downgrade', 'DowngradingConsistencyRetryPolicy: retry rows have retry_num == 0; the serial test precedes every downgrade in read timeout and '
                              'unavailable; a read is downgraded only when received < required, using the received count; writes downgrade only for UNLOGGED_BATCH')
    pol = chk.repo.mod(POL)

    # ---- default policy
    for m in METHODS:
        f = pol.func('RetryPolicy.%s' % m)
        rows = rows_of(f)
        if not rows:
            raise AnalysisError('RetryPolicy.%s: no rows' % m)
        for c, dec, lvl, p in rows:
            label = 'RetryPolicy.%s row [%s] -> (%s, %s)' % (m, p.cond_text()[:70], dec, lvl)
            if m == 'on_request_error':
                chk.judge(dec == 'RETRY_NEXT_HOST' and lvl == 'None', 'C23.default', f, label, 'request errors must move to the next host at the same level')
                continue
            if dec in RETRYING:
                chk.judge(c.get('retry_num == 0') is True or c.get('retry_num != 0') is False, 'C23.default', f, label + ' : retry only on first failure',
                          'a row retries without requiring retry_num == 0: the default policy could retry more than once')
                chk.judge(lvl in ('consistency', 'None'), 'C23.default', f, label + ' : same level', 'a retry names consistency level %s instead of the requested one' % lvl)
                if m == 'on_read_timeout':
                    chk.judge(c.get('received_responses < required_responses') is False and c.get('data_retrieved') is False, 'C23.default', f, label + ' : enough replicas, no data',
                              'read timeout retried although replicas were missing or data was retrieved')
                if m == 'on_write_timeout':
                    chk.judge(c.get('write_type == WriteType.BATCH_LOG') is True, 'C23.default', f, label + ' : only BATCH_LOG', 'write timeout retried for a write type other than BATCH_LOG')
                if m == 'on_unavailable':
                    chk.judge(dec == 'RETRY_NEXT_HOST' and lvl == 'None', 'C23.default', f, label + ' : next host', 'unavailable retried on the same host or at another level')
            else:
                chk.judge(dec == 'RETHROW' and lvl == 'None', 'C23.default', f, label, 'non-retry row is not (RETHROW, None)')
    # ---- fallthrough
    def method_of(cname, m):
        """the function that `cname().m` runs: own def, a class-level alias of an own def, else the inherited RetryPolicy method"""
        c_ = pol.cls(cname)
        for x in c_.body:
            if isinstance(x, ast.FunctionDef) and x.name == m:
                return x
        for x in c_.body:
            if isinstance(x, ast.Assign) and any(src(t) == m for t in x.targets) and isinstance(x.value, ast.Name):
                for y in c_.body:
                    if isinstance(y, ast.FunctionDef) and y.name == x.value.id:
                        return y
        return pol.func('RetryPolicy.%s' % m)
    for m in list(METHODS) + [x for x in ('on_request_error',) if x not in METHODS]:
        f = method_of('FallthroughRetryPolicy', m)
        for c, dec, lvl, p in rows_of(f):
            chk.judge(dec == 'RETHROW' and lvl == 'None', 'C23.fallthrough', f, 'FallthroughRetryPolicy.%s -> (%s, %s)' % (m, dec, lvl), 'fall-through policy does not rethrow')
    # ---- never retry
    nr = pol.cls('NeverRetryPolicy')
    rt = [x for x in nr.body if isinstance(x, ast.FunctionDef) and x.name == '_rethrow']
    if not rt:
        raise AnalysisError('NeverRetryPolicy._rethrow vanished')
    for c, dec, lvl, p in rows_of(rt[0]):
        chk.judge(dec == 'RETHROW' and lvl == 'None', 'C23.never', rt[0], 'NeverRetryPolicy._rethrow -> (%s, %s)' % (dec, lvl), '_rethrow does not rethrow')
    aliases = dict((src(st.targets[0]), src(st.value)) for st in nr.body if isinstance(st, ast.Assign))
    for m in ('on_read_timeout', 'on_write_timeout', 'on_unavailable'):
        chk.judge(aliases.get(m) == '_rethrow', 'C23.never', nr, 'NeverRetryPolicy.%s = _rethrow' % m, '%s is %s' % (m, aliases.get(m)))

    # ---- downgrading
    pk = pol.func('DowngradingConsistencyRetryPolicy._pick_consistency')
    prow = rows_of(pk)
    need = {'ConsistencyLevel.THREE': 3, 'ConsistencyLevel.TWO': 2, 'ConsistencyLevel.ONE': 1}
    for c, dec, lvl, p in prow:
        label = '_pick_consistency row [%s] -> (%s, %s)' % (p.cond_text()[:60], dec, lvl)
        if dec in RETRYING:
            n = need.get(lvl)
            # the row's conditions must imply num_responses >= n
            implied = any(c.get('num_responses < %d' % k) is False for k in range(n or 99, 4)) if n else False
            chk.judge(dec == 'RETRY' and n is not None and implied, 'C23.pick', pk, label + ' : enough responders',
                      'level %s is picked without requiring at least %s responders' % (lvl, n))
        else:
            chk.judge(dec == 'RETHROW' and lvl == 'None' and c.get('num_responses < 1') is True, 'C23.pick', pk, label + ' : no responder -> rethrow',
                      'a row without any responder does not rethrow')
    chk.judge(sorted(l for _c, d, l, _p in prow if d in RETRYING) == sorted(need), 'C23.pick', pk, 'levels picked: THREE, TWO, ONE', 'picked levels are %s' % [l for _c, d, l, _p in prow])
    inl = {'self._pick_consistency': prow}
    for m in ('on_read_timeout', 'on_write_timeout', 'on_unavailable'):
        f = pol.func('DowngradingConsistencyRetryPolicy.%s' % m)
        # which argument feeds _pick_consistency
        calls = [n for n in body_walk(f) if isinstance(n, ast.Call) and src(n.func) == 'self._pick_consistency']
        want_arg = {'on_read_timeout': 'received_responses', 'on_write_timeout': 'received_responses', 'on_unavailable': 'alive_replicas'}[m]
        for cc in calls:
            chk.judge([src(a) for a in cc.args] == [want_arg], 'C23.downgrade', cc, 'Downgrading.%s picks from %s' % (m, want_arg),
                      'the level is picked from %s, not from the number of replicas that %s' % ([src(a) for a in cc.args], 'responded' if m != 'on_unavailable' else 'are alive'))
        for c, dec, lvl, p in rows_of(f, inline=inl):
            label = 'Downgrading.%s row [%s] -> (%s, %s)' % (m, p.cond_text()[:80], dec, lvl)
            serial = c.get('ConsistencyLevel.is_serial(consistency)')
            if dec in RETRYING:
                chk.judge(c.get('retry_num != 0') is False or c.get('retry_num == 0') is True, 'C23.downgrade', f, label + ' : first failure only', 'retries without retry_num == 0')
            downgraded = lvl in need
            if downgraded:
                if m in ('on_read_timeout', 'on_unavailable'):
                    chk.judge(serial is False, 'C23.downgrade', f, label + ' : not a serial level',
                              'a downgrade row is reachable without the serial test having failed first: a SERIAL / LOCAL_SERIAL request is silently retried at %s' % lvl)
                if m == 'on_read_timeout':
                    chk.judge(c.get('received_responses < required_responses') is True, 'C23.downgrade', f, label + ' : fewer responses than required',
                              'a read is downgraded although enough replicas responded (could pick a stronger level than requested)')
                if m == 'on_write_timeout':
                    chk.judge(c.get('write_type == WriteType.UNLOGGED_BATCH') is True, 'C23.downgrade', f, label + ' : UNLOGGED_BATCH only', 'a write other than UNLOGGED_BATCH is downgraded')
            elif dec in RETRYING:
                if dec == 'RETRY':
                    chk.judge(lvl == 'consistency', 'C23.downgrade', f, label + ' : same level', 'retry at level %s' % lvl)
                if m == 'on_read_timeout':
                    chk.judge(c.get('data_retrieved') is False and serial is False, 'C23.downgrade', f, label + ' : no data retrieved, not serial', 'same-level read retry under wrong condition')
                if m == 'on_unavailable':
                    chk.judge(dec == 'RETRY_NEXT_HOST' and lvl == 'None' and serial is True, 'C23.downgrade', f, label + ' : serial -> next host', 'serial unavailable handled differently')
            elif dec == 'IGNORE':
                chk.judge(m == 'on_write_timeout' and c.get('0 < received_responses') is True and c.get('write_type in (WriteType.SIMPLE, WriteType.BATCH, WriteType.COUNTER)') is True,
                          'C23.downgrade', f, label + ' : persisted on at least one replica', 'IGNORE returned without an acknowledged write')
            else:
                chk.judge(dec == 'RETHROW' and lvl == 'None', 'C23.downgrade', f, label, 'row is not (RETHROW, None)')
    chk.extra['checker_cmd'] = './check C23'
    if chk.count('C23.downgrade') < 25 or chk.count('C23.default') < 12:
        raise AnalysisError('C23: fewer rows than confirmed by hand')

    # the policies decide on what the decoder hands them: required / alive / received must be read into the right fields
    chk.rule('C23.fields', 'UNAVAILABLE / READ_TIMEOUT / WRITE_TIMEOUT error bodies are decoded into the field names the retry policies are called with')
    chk.borrow('C04', {'C04.error': 'C23.fields'}, 'the downgrading policy then picks a level from swapped counts')
