"""C04 - response frames decode to exactly what the server sent (layouts, registries)."""
import ast
import itertools

from ..core import AnalysisError, chain, src, body_walk, parent
from ..fold import Folder, Unfoldable
from ..absint import Interp, Sym, TriVal, text_of
from .c03 import load_spec, Machine, PROTO, INIT

READER_PRIM = {
    'read_byte': 'byte', 'read_short': 'short', 'read_int': 'int', 'read_consistency_level': 'consistency',
    'read_string': 'string', 'read_binary_string': 'short bytes', 'read_longstring': 'long string (utf8)',
    'read_binary_longstring': 'bytes', 'read_value': 'bytes', 'read_stringlist': 'string list', 'read_stringmap': 'string map',
    'read_bytesmap': 'bytes map', 'read_stringmultimap': 'string multimap', 'read_inet': 'inet',
    'read_inet_addr_only': 'inetaddr', 'read_error_code_map': 'reasonmap', 'read_type': 'type',
}


def role_of(call):
    """name the value read by this call is bound to: dict key, assignment target or keyword."""
    n = call
    p = parent(n)
    guard = 0
    while p is not None and guard < 8:
        guard += 1
        if isinstance(p, ast.Dict):
            for k, v in zip(p.keys, p.values):
                if v is n and isinstance(k, ast.Constant):
                    return k.value
        if isinstance(p, ast.keyword):
            n, p = p, parent(p)
            continue
        if isinstance(p, ast.Assign):
            t = p.targets[0]
            return src(t).replace('self.', '')
        if isinstance(p, (ast.Call, ast.Subscript, ast.UnaryOp, ast.BoolOp, ast.Attribute, ast.BinOp, ast.Compare,
                          ast.ListComp, ast.GeneratorExp, ast.comprehension)):
            n, p = p, parent(p)
            continue
        break
    return None


class Reader(object):
    def __init__(self, M, script=None):
        self.M = M
        self.script = dict(script or {})   # index of read call -> concrete value
        self.n = 0

    def effect(self, interp, call, c, args, kwargs, env):
        if c and len(c) == 2 and c[0] == 'ProtocolVersion' and len(args) == 1 and isinstance(args[0], int):
            return self.M.pv_pred(c[1], args[0])
        name = c[-1] if c else None
        if c and ((len(c) == 1 and name.startswith('read_') and self.M.proto.has(name)) or
                  (len(c) == 2 and c[0] in ('self', 'cls') and name == 'read_type')):
            i = self.n
            self.n += 1
            interp.events.append(('r', name, role_of(call)))
            if i in self.script:
                return self.script[i]
            return Sym('%s#%d' % (name, i))
        if c and c[-1] == 'read' and len(c) == 2 and len(args) == 1:
            interp.events.append(('rawread', text_of(args[0]), role_of(call)))
            self.n += 1
            return Sym('read#%d' % self.n)
        return NotImplemented


def fields(events):
    stack = [[]]
    for ev in events:
        if ev[0] == 'r':
            stack[-1].append((READER_PRIM.get(ev[1], ev[1]), ev[2]))
        elif ev[0] == 'rawread':
            stack[-1].append(('raw[%s]' % ev[1], ev[2]))
        elif ev[0] == 'loop':
            stack.append([])
        elif ev[0] == 'endloop':
            b = stack.pop()
            if b:
                # [short n] loop [string]  is the specification's [string list]
                if len(b) == 1 and b[0][0] == 'string' and stack[-1] and stack[-1][-1][0] == 'short':
                    sh = stack[-1].pop()
                    stack[-1].append(('string list', role_of_loop(sh, b)))
                else:
                    stack[-1].append(('loop', tuple(b)))
    return tuple(stack[0])


def role_of_loop(short_field, body):
    return body[0][1] or short_field[1]


def show(fs):
    return ' '.join('loop[%s]' % show(f[1]) if f[0] == 'loop' else '%s:%s' % f for f in fs)


def run(M, cls, func, owner, env, script=None, max_forks=512):
    rd = Reader(M, script)
    it = Interp(M.proto, M.folder, effect=rd.effect, max_forks=max_forks)
    it.eval_dicts = True
    outs = []
    # the Reader's counter must restart for every fork re-interpretation
    orig = it.call_func
    depth = [0]

    def wrapped(func_, args, cls_):
        if depth[0] == 0:
            rd.n = 0
        depth[0] += 1
        try:
            return orig(func_, args, cls_)
        finally:
            depth[0] -= 1
    it.call_func = wrapped
    e = dict(env)
    e['__owner__'] = owner
    return it.run_all(func, e, cls)


def prims(fs):
    return tuple(('loop', prims(f[1])) if f[0] == 'loop' else f[0] for f in fs)


def check(chk):
    chk.decides = ('the read sequence (primitive, width, order, role) of every response decoder for every protocol version and every '
                   'metadata flag combination, against the specification; opcode / error-code / type-code registries; the frame-flag prologue order; '
                   'error info keys against exception constructor parameters')
    chk.does_not_decide = 'that decoded Python objects equal what a server meant (contents); DSE-private field order relative to No_metadata'
    chk.rule('C04.error', 'each error class reads exactly the code-specific fields of the specification, in order, under the right names')
    chk.rule('C04.exc', 'error classes map to the documented exception type and pass info keys that the exception constructor accepts')
    chk.rule('C04.registry', 'opcode, error-code and type-code registries agree with the specification')
    chk.rule('C04.rows', 'RESULT/Rows and Prepared metadata: read sequence equals the specification for every flag combination and version')
    chk.rule('C04.type', 'read_type reads the option layout of the specification for every type code')
    chk.rule('C04.event', 'EVENT bodies: read sequence per event kind, target and version')
    chk.rule('C04.simple', 'SUPPORTED / READY / AUTHENTICATE / AUTH_CHALLENGE / AUTH_SUCCESS / ERROR prologue layouts')
    chk.rule('C04.prologue', 'decode_message reads tracing id, warnings, custom payload in that order, each under its flag')
    spec = load_spec()
    M = Machine(chk)
    proto = M.proto
    init = M.init

    # [bytes map] values are [bytes]: a negative length is null (read_value), not an empty string
    rbm = proto.func('read_bytesmap')
    vals_ = [st for st in body_walk(rbm) if isinstance(st, ast.Assign) and isinstance(st.targets[0], ast.Subscript)]
    from ..sem import resolve as _res04
    okb_ = len(vals_) == 1 and src(_res04(rbm, vals_[0].value, loops=True)) == 'read_value(f)'
    chk.judge(okb_, 'C04.prologue', rbm, 'custom payload values are read with read_value ([bytes]: negative length = null)',
              'the values of a [bytes map] are read with %s: a null value (length -1) is not recognised - the reader swallows the rest of the frame or returns b"" for None' % [src(v_.value)[:40] for v_ in vals_])
    # ---------------- registries
    opc = {}
    for q, c in proto.classes():
        if '.' in q or q.startswith('_'):
            continue
        vals = {}
        for st in c.body:
            if isinstance(st, ast.Assign) and isinstance(st.targets[0], ast.Name) and st.targets[0].id in ('opcode', 'name', 'error_code'):
                try:
                    vals[st.targets[0].id] = M.folder.eval(st.value)
                except Unfoldable:
                    pass
        if 'opcode' in vals and 'name' in vals:
            opc[vals['name']] = (vals['opcode'], c)
    for name in ('ERROR', 'READY', 'AUTHENTICATE', 'SUPPORTED', 'RESULT', 'EVENT', 'AUTH_CHALLENGE', 'AUTH_SUCCESS'):
        if name not in opc:
            chk.viol('C04.registry', (PROTO, '<module>', 0), 'response %s registered' % name, 'no message class named %s' % name)
            continue
        code, c = opc[name]
        chk.judge(code == spec.OPCODES[name], 'C04.registry', c, '%s opcode %#x' % (name, spec.OPCODES[name]), 'opcode is %#x' % code)
        rb = any(isinstance(st, ast.FunctionDef) and st.name == 'recv_body' for st in c.body)
        chk.judge(rb, 'C04.registry', c, '%s has recv_body' % name, 'response class %s cannot be decoded (no recv_body)' % name)
    # opcodes unique
    codes = {}
    for name, (code, c) in opc.items():
        codes.setdefault(code, []).append(name)
    dup = dict((k, v) for k, v in codes.items() if len(v) > 1)
    chk.judge(not dup, 'C04.registry', (PROTO, '<module>', 0), 'opcodes are unique', 'two message classes share an opcode: %s' % dup)
    # the registering metaclass
    reg = proto.func('register_class')
    chk.judge(any(isinstance(n, ast.Subscript) and src(n.value) == '_message_types_by_opcode' and src(n.slice) == 'cls.opcode' for n in ast.walk(reg)),
              'C04.registry', reg, 'register_class keys by cls.opcode', 'registry is no longer keyed by opcode')

    # error classes
    errs = {}
    for q, c in proto.classes():
        if '.' in q:
            continue
        for st in c.body:
            if isinstance(st, ast.Assign) and isinstance(st.targets[0], ast.Name) and st.targets[0].id == 'error_code' and not (isinstance(st.value, ast.Constant) and st.value.value is None):
                try:
                    errs[M.folder.eval(st.value)] = c
                except Unfoldable:
                    raise AnalysisError('cannot fold error_code of %s' % c.name)
    for code, (sname, flds) in sorted(spec.ERROR_CODES.items()):
        if code not in errs:
            chk.viol('C04.registry', (PROTO, 'error_classes', 0), 'error code %#06x (%s) has a class' % (code, sname),
                     'no ErrorMessage subclass for error code %#06x (%s): it decodes as a generic ErrorMessage and its code-specific fields are dropped' % (code, sname))
        else:
            chk.ok('C04.registry', errs[code], 'error code %#06x (%s) -> %s' % (code, sname, errs[code].name))
    # the registration itself: every class that has a code - 0x0000 (ServerError) included - is entered under it
    reg_e = proto.func('ErrorMessageSubclass.__init__')
    from .. import sem as _sem4
    g4, fl4 = _sem4.flow_of(reg_e)
    # error_classes[<code>] = cls, the code read from the class (cls.error_code) or from the class dict, possibly through a local
    regs4 = [n for n in g4.stmt_nodes() if n.kind == 'stmt' and isinstance(n.ast, ast.Assign) and isinstance(n.ast.targets[0], ast.Subscript) and src(n.ast.targets[0].value) == 'error_classes'
             and src(n.ast.value) == 'cls']
    if len(regs4) != 1:
        raise AnalysisError('ErrorMessageSubclass.__init__: error_classes[<code>] = cls not found')
    ktxt = src(regs4[0].ast.targets[0].slice)
    kres = src(_sem4.resolve(reg_e, regs4[0].ast.targets[0].slice))
    chk.judge(kres in ('cls.error_code', "dct.get('error_code')", "dct['error_code']", "dct.get('error_code', None)"), 'C04.registry', regs4[0].ast, 'the registry key is the class\'s error code (%s)' % kres,
              'classes are registered under %s, not under their error code' % kres)
    states4 = list(fl4.at(regs4[0]))
    about = lambda k: ('error_code' in k) or (ktxt in k.split())
    only_none = bool(states4) and all(fa.knows('%s is None' % ktxt) is False and fa.knows(ktxt) is None and
                                      all(k in ('%s is None' % ktxt,) or k.startswith('(') for k, _p in fa.items if about(k)) for fa, _c in states4)
    chk.judge(only_none, 'C04.registry', regs4[0].ast, 'a class is registered under its error code unless the code is None (0x0000 is a code)',
              'the registration is guarded by %s: ServerError has error code 0x0000, which such a test excludes, so an ERROR frame with code 0 decodes to the generic ErrorMessage '
              '("Unknown") instead of ServerError' % sorted(k for fa, _c in states4 for k, _p in fa.items if about(k)))
    interp0 = Interp(proto, M.folder)
    for code, c in sorted(errs.items()):
        if code not in spec.ERROR_CODES:
            continue
        sname, flds = spec.ERROR_CODES[code]
        m, owner = interp0.resolve_method(c, 'recv_error_info')
        for v in M.versions:
            outs = run(M, c, m, owner, {'f': Sym('f'), 'protocol_version': v})
            want = []
            for prim, role in flds:
                if prim == 'failures':
                    want.append(('reasonmap' if spec.failures_field(v) == 'reasonmap' else 'int', 'failures'))
                else:
                    want.append((prim, role))
            for o in outs:
                got = fields(o.events)
                gp = [g[0] for g in got]
                gp_roles = [g[1] for g in got]
                probs = []
                wp = [w[0] for w in want]
                if gp != wp:
                    probs.append('reads [%s], specification has [%s]' % (', '.join(map(str, gp)), ', '.join(wp)))
                else:
                    # where the value read ends up: the keys of the returned dict whose value is computed from that read (whatever locals it passed through)
                    val = o.value if isinstance(o.value, dict) else {}
                    rev = [e for e in o.events if e[0] == 'r']
                    keys_of = {}
                    if len(rev) == len(got):
                        for idx, e in enumerate(rev):
                            tag = '%s#%d' % (e[1], idx)
                            keys_of[idx] = set(k for k, vv in val.items() if isinstance(k, str) and tag in text_of(vv))
                    for idx, ((prim, role), r) in enumerate(zip(want, gp_roles)):
                        dest = keys_of.get(idx) or set([r])
                        if role == 'failures' and dest & set(['failures', 'error_code_map']):
                            continue
                        if role in dest:
                            continue
                        if role == 'query_id':
                            continue
                        if r != role:
                            probs.append('field <%s> is stored as %r' % (role, r))
                chk.judge(o.kind == 'ok' and not probs, 'C04.error', m, '%s.recv_error_info @ v=%#x' % (c.name, v),
                          '; '.join(probs) or 'raises %s' % o.exc)
    chk.require('C04.error', 100)

    # to_exception targets and parameter agreement
    def ctor_params(clsname):
        """names accepted by the exception constructor chain in cassandra/__init__.py"""
        acc = set()
        cur = clsname
        guard = 0
        while cur and guard < 6:
            guard += 1
            if not init.has(cur):
                break
            c = init.cls(cur)
            ctor = [st for st in c.body if isinstance(st, ast.FunctionDef) and st.name == '__init__']
            if not ctor:
                b = chain(c.bases[0]) if c.bases else None
                cur = b[-1] if b else None
                continue
            a = ctor[0].args
            acc.update(x.arg for x in a.args[1:])
            acc.update(x.arg for x in a.kwonlyargs)
            if a.kwarg is None:
                break
            # follow Base.__init__(self, ..., **kwargs)
            nxt = None
            for n in ast.walk(ctor[0]):
                if isinstance(n, ast.Call) and isinstance(n.func, ast.Attribute) and n.func.attr == '__init__' and isinstance(n.func.value, ast.Name) \
                        and any(k.arg is None for k in n.keywords):
                    nxt = n.func.value.id
            cur = nxt
        return acc
    for code, exc in sorted(spec.ERROR_EXCEPTIONS.items()) + [(0x2200, 'InvalidRequest'), (0x2100, 'Unauthorized')]:
        if code not in errs:
            continue
        c = errs[code]
        if code == 0x0100:
            continue   # authentication errors are converted by the connection layer (C47)
        m, owner = interp0.resolve_method(c, 'to_exception')
        rets = [n for n in body_walk(m) if isinstance(n, ast.Return)] if m is not None else []
        tgt = None
        if len(rets) == 1 and isinstance(rets[0].value, ast.Call):
            tgt = (chain(rets[0].value.func) or ('',))[-1]
        chk.judge(tgt == exc, 'C04.exc', m if m is not None else c, '%s.to_exception -> cassandra.%s' % (c.name, exc),
                  'error code %#06x surfaces as %s, the documented exception type is cassandra.%s' % (code, tgt or 'the message object itself', exc))
        if tgt == exc and any(k.arg is None and src(k.value) == 'self.info' for k in rets[0].value.keywords):
            im, io = interp0.resolve_method(c, 'recv_error_info')
            keys = set()
            for n in body_walk(im):
                if isinstance(n, ast.Return) and isinstance(n.value, ast.Dict):
                    keys = set(k.value for k in n.value.keys if isinstance(k, ast.Constant))
            params = ctor_params(exc)
            chk.judge(keys and keys <= params, 'C04.exc', m, '%s info keys %s accepted by %s(%s)' % (c.name, sorted(keys), exc, sorted(params)),
                      'info keys %s are not parameters of %s.__init__ (%s): to_exception() would raise TypeError' % (sorted(keys - params), exc, sorted(params)))
    chk.require('C04.exc', 12)

    # type codes
    tc = chk.repo.mod('cassandra/type_codes.py')
    codes_tbl = {}
    for st in tc.tree.body:
        if isinstance(st, ast.Assign) and isinstance(st.targets[0], ast.Name) and isinstance(st.value, ast.Constant) and isinstance(st.value.value, int) \
                and not st.targets[0].id.startswith('_'):
            codes_tbl[st.value.value] = st.targets[0].id
    imported = set()
    for st in proto.tree.body:
        if isinstance(st, ast.ImportFrom) and st.module == 'cassandra.cqltypes':
            imported.update(a.asname or a.name for a in st.names)
    for code, cname in sorted(spec.TYPE_CODE_CLASSES.items()):
        got = codes_tbl.get(code)
        chk.judge(got == cname or (code == 0x000D and got in ('VarcharType', 'UTF8Type')), 'C04.registry', (tc.rel, '<module>', 0),
                  'type code %#06x -> %s' % (code, cname), 'type code %#06x maps to %s, specification says %s' % (code, got, spec.TYPE_CODES[code]))
        if got:
            chk.judge(got in imported, 'C04.registry', (PROTO, '<module>', 0), 'type class %s resolvable in protocol.py' % got,
                      'ResultMessage.type_codes looks up globals()[%r] but protocol.py does not import it' % got)
    chk.judge(codes_tbl.get(0) == 'CUSTOM_TYPE', 'C04.registry', (tc.rel, '<module>', 0), 'type code 0 is the custom type', 'code 0 is %s' % codes_tbl.get(0))

    # ---------------- read_type
    rm = proto.cls('ResultMessage')
    rt, rto = interp0.resolve_method(rm, 'read_type')
    names_env = dict((n, n) for n in set(codes_tbl.values()) | set(['CUSTOM_TYPE']))
    want_type = {
        'ListType': ('short', 'type'), 'SetType': ('short', 'type'), 'MapType': ('short', 'type', 'type'),
        'TupleType': ('short', 'short', ('loop', ('type',))),
        'UserType': ('short', 'string', 'string', 'short', ('loop', ('string', 'type'))),
        'CUSTOM_TYPE': ('short', 'string'),
    }
    for code, cname in sorted(codes_tbl.items()):
        env = dict(names_env)
        env.update({'cls': Sym('cls'), 'f': Sym('f'), 'user_type_map': Sym('user_type_map'), 'cls.type_codes': dict(codes_tbl)})
        outs = run(M, rm, rt, rto, env, script={0: code})
        for o in outs:
            got = prims(fields(o.events))
            want = want_type.get(cname, ('short',))
            chk.judge(o.kind == 'ok' and got == want, 'C04.type', rt, 'read_type code %#06x (%s): %s' % (code, cname, got),
                      'option %s must be read as %s, driver reads %s%s' % (cname, want, got, '' if o.kind == 'ok' else ' then raises %s' % o.exc))
    # unknown code raises
    env = dict(names_env)
    env.update({'cls': Sym('cls'), 'f': Sym('f'), 'user_type_map': Sym('user_type_map'), 'cls.type_codes': dict(codes_tbl)})
    outs = run(M, rm, rt, rto, env, script={0: 0x7777})
    chk.judge(all(o.kind == 'raise' for o in outs), 'C04.type', rt, 'read_type: unknown option id raises', 'an unknown type code does not raise')
    chk.require('C04.type', 25)

    # ---------------- rows / prepared metadata
    F = {}
    for k in ('_FLAGS_GLOBAL_TABLES_SPEC', '_HAS_MORE_PAGES_FLAG', '_NO_METADATA_FLAG', '_METADATA_ID_FLAG', '_CONTINUOUS_PAGING_FLAG', '_CONTINUOUS_PAGING_LAST_FLAG'):
        try:
            F[k] = M.folder.class_const('ResultMessage', k)
        except Unfoldable as e:
            raise AnalysisError(str(e))
    sp = spec.ROWS_FLAGS
    for k, s in (('_FLAGS_GLOBAL_TABLES_SPEC', 'global_tables_spec'), ('_HAS_MORE_PAGES_FLAG', 'has_more_pages'), ('_NO_METADATA_FLAG', 'no_metadata'),
                 ('_METADATA_ID_FLAG', 'metadata_changed'), ('_CONTINUOUS_PAGING_FLAG', 'continuous_paging'), ('_CONTINUOUS_PAGING_LAST_FLAG', 'last_continuous_page')):
        chk.judge(F[k] == sp[s], 'C04.registry', rm, 'ResultMessage.%s == %#x' % (k, sp[s]), 'flag %s is %#x' % (k, F[k]))
    for k, val in spec.RESULT_KINDS.items():
        name = 'RESULT_KIND_' + k
        try:
            got = M.folder.module_const(name)
        except Unfoldable:
            raise AnalysisError('anchor vanished: %s' % name)
        chk.judge(got == val, 'C04.registry', (PROTO, '<module>', 0), '%s == %d' % (name, val), '%s is %r' % (name, got))

    def col_spec(glob):
        return ((() if glob else ('string', 'string')) + ('string', 'type'))

    def want_rows_meta(flags):
        w = ['int', 'int']
        if flags & sp['has_more_pages']:
            w.append('bytes')
        if flags & sp['no_metadata']:
            return tuple(w)
        if flags & sp['continuous_paging']:
            w.append('int')
        if flags & sp['metadata_changed']:
            w.append('short bytes')
        glob = bool(flags & sp['global_tables_spec'])
        if glob:
            w += ['string', 'string']
        w.append(('loop', col_spec(glob)))
        return tuple(w)
    rmeta, rmo = interp0.resolve_method(rm, 'recv_results_metadata')
    bits = [sp['global_tables_spec'], sp['has_more_pages'], sp['no_metadata'], sp['metadata_changed'], sp['continuous_paging']]
    n_meta = 0
    for combo in itertools.product((0, 1), repeat=len(bits)):
        flags = sum(b for b, on in zip(bits, combo) if on)
        if flags & sp['no_metadata'] and flags & sp['metadata_changed']:
            continue     # excluded by the specification
        outs = run(M, rm, rmeta, rmo, {'self': Sym('self'), 'f': Sym('f'), 'user_type_map': Sym('utm')}, script={0: flags})
        for o in outs:
            got = prims(fields(o.events))
            n_meta += 1
            chk.judge(o.kind == 'ok' and got == want_rows_meta(flags), 'C04.rows', rmeta, 'recv_results_metadata flags=%#x: %s' % (flags, got),
                      'result metadata with flags %#x must be read as %s, driver reads %s' % (flags, want_rows_meta(flags), got))
    # roles of the metadata reads
    role_ev = None
    outs = run(M, rm, rmeta, rmo, {'self': Sym('self'), 'f': Sym('f'), 'user_type_map': Sym('utm')},
               script={0: sp['has_more_pages'] | sp['metadata_changed']})
    for o in outs:
        fs = fields(o.events)
        roles = [f[1] for f in fs[:4]]
        chk.judge(roles == ['flags', 'colcount', 'paging_state', 'result_metadata_id'], 'C04.rows', rmeta,
                  'metadata fields stored as flags, colcount, paging_state, result_metadata_id', 'metadata fields are stored as %s' % roles)
        loop = [f for f in fs if f[0] == 'loop'][0]
        lr = [x[1] for x in loop[1]]
        kinds = [x[0] for x in loop[1]]
        spec_names = lr
        chk.judge(len(lr) == 4 and kinds[:3] == ['string', 'string', 'string'] and len(set(lr)) == 4, 'C04.rows', rmeta, 'column spec read as [string] keyspace, [string] table, [string] name, [option] type',
                  'column specification fields are read as %s bound to %s' % (kinds, lr))
    # the tuple appended per column
    want_names = {}
    for fn_name, ctor in (('recv_results_metadata', None), ('recv_prepared_metadata', 'ColumnMetadata')):
        fn, _ = interp0.resolve_method(rm, fn_name)
        # the names the per-column loop binds, in the order it binds them (keyspace, table - from the global spec or read per column -, name, type)
        col_loops = [n for n in body_walk(fn) if isinstance(n, ast.For) and 'colcount' in src(n.iter)]
        order = []
        for lp_ in col_loops[:1]:
            def _collect(stmts):
                for st in stmts:
                    if isinstance(st, ast.Assign) and len(st.targets) == 1 and isinstance(st.targets[0], ast.Name):
                        if st.targets[0].id not in order:
                            order.append(st.targets[0].id)
                    elif isinstance(st, ast.If):
                        _collect(st.body)
                        _collect(st.orelse)
            _collect(lp_.body)
        want_names[fn_name] = order[:4]
        if len(order) < 4:
            raise AnalysisError('%s: per-column loop not recognised (%s)' % (fn_name, order))
        apps = [n for n in body_walk(fn) if isinstance(n, ast.Call) and isinstance(n.func, ast.Attribute) and n.func.attr == 'append' and n.args]
        good = False
        for a in apps:
            v = a.args[0]
            elts = v.elts if isinstance(v, ast.Tuple) else (v.args if isinstance(v, ast.Call) else [])
            if [src(e) for e in elts] == want_names[fn_name]:
                good = True
        chk.judge(good, 'C04.rows', fn, '%s appends (keyspace, table, name, type) in the order they were read' % fn_name, 'column metadata entry is no longer %s' % (want_names[fn_name],))

    # rows
    rr, rro = interp0.resolve_method(rm, 'recv_results_rows')
    calls = [src(n.func) for n in body_walk(rr) if isinstance(n, ast.Call)]
    order_ok = calls and calls[0] == 'self.recv_results_metadata'
    chk.judge(order_ok, 'C04.rows', rr, 'recv_results_rows reads metadata first', 'rows are read before their metadata')
    outs = run(M, rm, rr, rro, {'self': Sym('self'), 'f': Sym('f'), 'protocol_version': 4, 'user_type_map': Sym('u'),
                               'result_metadata': Sym('rm'), 'column_encryption_policy': None}, script={0: sp['no_metadata']})
    for o in outs:
        got = prims(fields(o.events))
        good = got[:2] == ('int', 'int') and got[2] == 'int' and isinstance(got[3], tuple) and got[3][0] == 'loop' and got[3][1] == (('loop', ('bytes',)),)
        chk.judge(o.kind == 'ok' and good, 'C04.rows', rr, 'rows: [int rowcount] then rowcount x colcount [bytes]: %s' % (got[2:],),
                  'rows content must be <rows_count:int> then one [bytes] per column per row; driver reads %s' % (got,))
    rrow, _ = interp0.resolve_method(rm, 'recv_row')
    chk.judge('range(colcount)' in src(rrow) and 'read_value(f)' in src(rrow), 'C04.rows', rrow, 'recv_row reads colcount values', 'recv_row changed')
    # column count used for rows is that of the metadata in effect
    asg = [st for st in rr.body if isinstance(st, ast.Assign) and src(st.targets[0]) == 'column_metadata']
    chk.judge(len(asg) == 1 and src(asg[0].value) == 'self.column_metadata or result_metadata', 'C04.rows', rr,
              'rows use the received metadata, else the prepared statement\'s result metadata', 'metadata selection for rows changed: %s' % (src(asg[0].value) if asg else None))

    # prepared
    rp, rpo = interp0.resolve_method(rm, 'recv_results_prepared')
    pm, pmo = interp0.resolve_method(rm, 'recv_prepared_metadata')
    for v in M.versions:
        for glob in (0, 1):
            flags = sp['global_tables_spec'] if glob else 0
            outs = run(M, rm, rp, rpo, {'self': Sym('self'), 'f': Sym('f'), 'protocol_version': v, 'user_type_map': Sym('u')},
                       script=None)
            # script: the flags read is the first read_int; its index depends on version (id, [metadata id])
            idx = 2 if spec.result_metadata_id_supported(v) else 1
            outs = run(M, rm, rp, rpo, {'self': Sym('self'), 'f': Sym('f'), 'protocol_version': v, 'user_type_map': Sym('u')},
                       script={idx: flags})
            want = ['short bytes'] + (['short bytes'] if spec.result_metadata_id_supported(v) else []) + ['int', 'int']
            if v >= 4:
                want += ['int', ('loop', ('short',))]
            if glob:
                want += ['string', 'string']
            want.append(('loop', col_spec(glob)))
            for o in outs:
                got = prims(fields(o.events))
                head = got[:len(want)]
                tail = got[len(want):]
                good = tuple(head) == tuple(want) and ((v >= 2 and len(tail) >= 2 and tail[:2] == ('int', 'int')) or (v < 2 and not tail))
                chk.judge(o.kind == 'ok' and good, 'C04.rows', rp, 'Prepared @ v=%#x global=%d: %s' % (v, glob, head),
                          'PREPARED result must be read as %s then %s; driver reads %s' % (want, 'result metadata' if v >= 2 else 'nothing', got))
    chk.require('C04.rows', 60)
    # ResultMessage.recv dispatch
    rv, _ = interp0.resolve_method(rm, 'recv')
    from ..sem import dispatch_table
    disp = dict((k, ' '.join(src(n.ast) for n in nodes)[:80]) for k, nodes in dispatch_table(rv, 'self.kind').items())
    wantd = {'RESULT_KIND_ROWS': 'recv_results_rows', 'RESULT_KIND_SET_KEYSPACE': 'read_string', 'RESULT_KIND_PREPARED': 'recv_results_prepared',
             'RESULT_KIND_SCHEMA_CHANGE': 'recv_results_schema_change', 'RESULT_KIND_VOID': 'return'}
    for k, frag in wantd.items():
        chk.judge(k in disp and frag in disp[k], 'C04.rows', rv, 'RESULT kind %s -> %s' % (k, frag), 'RESULT kind %s is decoded by %r' % (k, disp.get(k)))
    chk.judge(any(isinstance(n, ast.Raise) for n in body_walk(rv)), 'C04.rows', rv, 'unknown RESULT kind raises', 'unknown kind is not rejected')

    # ---------------- events
    ev = proto.cls('EventMessage')
    sc, sco = interp0.resolve_method(ev, 'recv_schema_change')
    targets = {}
    for t in ('KEYSPACE', 'TABLE', 'TYPE', 'FUNCTION', 'AGGREGATE'):
        try:
            targets[t] = Folder(init).class_const('SchemaTargetType', t)
        except Unfoldable:
            raise AnalysisError('SchemaTargetType.%s' % t)
    stt = dict(targets)
    for v in M.versions:
        if v >= 3:
            for t, tv in sorted(targets.items()):
                outs = run(M, ev, sc, sco, {'cls': Sym('cls'), 'f': Sym('f'), 'protocol_version': v, 'SchemaTargetType': stt}, script={1: tv})
                want = ['string', 'string', 'string']
                if t != 'KEYSPACE':
                    want.append('string')
                    if t in ('FUNCTION', 'AGGREGATE'):
                        want += ['string list']
                for o in outs:
                    got = list(prims(fields(o.events)))
                    chk.judge(o.kind == 'ok' and got == want, 'C04.event', sc, 'SCHEMA_CHANGE @ v=%#x target=%s: %s' % (v, t, got),
                              'schema change for %s must be read as %s (argument list = [short n][string]*), driver reads %s' % (t, want, got))
        else:
            outs = run(M, ev, sc, sco, {'cls': Sym('cls'), 'f': Sym('f'), 'protocol_version': v, 'SchemaTargetType': stt})
            for o in outs:
                got = list(prims(fields(o.events)))
                chk.judge(o.kind == 'ok' and got == ['string', 'string', 'string'], 'C04.event', sc, 'SCHEMA_CHANGE @ v=%#x: %s' % (v, got),
                          'v1/v2 schema change is <change><keyspace><table>; driver reads %s' % got)
    for nm in ('recv_topology_change', 'recv_status_change'):
        fn, fo = interp0.resolve_method(ev, nm)
        outs = run(M, ev, fn, fo, {'cls': Sym('cls'), 'f': Sym('f'), 'protocol_version': 4})
        for o in outs:
            fs = fields(o.events)
            chk.judge(prims(fs) == ('string', 'inet') and [x[1] for x in fs] == ['change_type', 'address'], 'C04.event', fn,
                      '%s: [string change_type][inet address]' % nm, '%s reads %s' % (nm, show(fs)))
    rb, rbo = interp0.resolve_method(ev, 'recv_body')
    ket = M.folder.module_const('known_event_types')
    chk.judge(set(ket) == set(['TOPOLOGY_CHANGE', 'STATUS_CHANGE', 'SCHEMA_CHANGE']), 'C04.event', rb, 'known_event_types', 'known event types are %s' % sorted(ket))
    for t in sorted(ket):
        has = any(isinstance(st, ast.FunctionDef) and st.name == 'recv_' + t.lower() for st in ev.body)
        chk.judge(has, 'C04.event', ev, 'EventMessage.recv_%s exists' % t.lower(), 'recv_body dispatches to recv_%s which does not exist' % t.lower())
    chk.judge("getattr(cls, 'recv_' + event_type.lower())" in src(rb), 'C04.event', rb, 'EVENT dispatches on its type string', 'event dispatch changed')
    chk.require('C04.event', 30)

    # ---------------- simple responses
    simple = {'SupportedMessage': ('string multimap',), 'AuthenticateMessage': ('string',), 'AuthChallengeMessage': ('bytes',),
              'AuthSuccessMessage': ('bytes',), 'ReadyMessage': ()}
    for cname, want in sorted(simple.items()):
        c = proto.cls(cname)
        fn, fo = interp0.resolve_method(c, 'recv_body')
        outs = run(M, c, fn, fo, {'cls': Sym('cls'), 'f': Sym('f'), 'args': Sym('args')})
        for o in outs:
            got = prims(fields(o.events))
            chk.judge(o.kind == 'ok' and got == want, 'C04.simple', fn, '%s.recv_body reads %s' % (cname, got),
                      '%s body is %s in the specification; the driver reads %s' % (cname, want or 'empty', got))
    em = proto.cls('ErrorMessage')
    fn, fo = interp0.resolve_method(em, 'recv_body')
    outs = run(M, em, fn, fo, {'cls': Sym('cls'), 'f': Sym('f'), 'protocol_version': 4, 'args': Sym('args')})
    for o in outs:
        fs = fields(o.events)
        chk.judge(prims(fs) == ('int', 'string') and [x[1] for x in fs] == ['code', 'msg'], 'C04.simple', fn, 'ERROR: [int code][string message]',
                  'ERROR prologue read as %s' % show(fs))
    s = src(fn)
    chk.judge('error_classes.get(code, cls)' in s and 'subcls.recv_error_info(f, protocol_version)' in s and 'subcls(code=code, message=msg, info=extra_info)' in s,
              'C04.simple', fn, 'ERROR dispatches on code to the subclass, reads its info, builds it with code/message/info',
              'ERROR decoding no longer dispatches by code / passes code, message, info')

    # ---------------- decode_message prologue
    ph = proto.cls('_ProtocolHandler')
    dm, dmo = interp0.resolve_method(ph, 'decode_message')
    hf = spec.HEADER_FLAGS
    for tr, wa, cp in itertools.product((0, 1), repeat=3):
        flags = tr * hf['TRACING_FLAG'] | wa * hf['WARNING_FLAG'] | cp * hf['CUSTOM_PAYLOAD_FLAG']
        env = {'cls': Sym('cls'), 'protocol_version': 4, 'user_type_map': Sym('u'), 'stream_id': Sym('stream_id'), 'flags': flags,
               'opcode': Sym('opcode'), 'body': Sym('body'), 'decompressor': None, 'result_metadata': Sym('rm')}
        outs = run(M, ph, dm, dmo, env)
        want = (['raw[16]'] if tr else []) + (['string list'] if wa else []) + (['bytes map'] if cp else [])
        for o in outs:
            fs = fields(o.events)
            got = [f[0] for f in fs]
            roles = [f[1] for f in fs]
            wroles = (['trace_id'] if tr else []) + (['warnings'] if wa else []) + (['custom_payload'] if cp else [])
            chk.judge(got == want and roles == wroles, 'C04.prologue', dm, 'decode_message flags=%#x reads %s' % (flags, got),
                      'frame with flags %#x must read %s (tracing id, warnings, custom payload in that order); driver reads %s as %s' % (flags, want, got, roles))
    s = src(dm)
    for frag, what in (('msg.stream_id = stream_id', 'stream id'), ('msg.trace_id = trace_id', 'trace id'), ('msg.custom_payload = custom_payload', 'custom payload'),
                       ('msg.warnings = warnings', 'warnings')):
        chk.judge(frag in s, 'C04.prologue', dm, 'decoded message carries its %s' % what, 'decode_message no longer stores the %s on the message' % what)
    chk.judge('cls.message_types_by_opcode[opcode]' in s, 'C04.prologue', dm, 'message class chosen by opcode', 'message class lookup changed')
    # compressed body is inflated before reading, only without checksumming
    outs = run(M, ph, dm, dmo, {'cls': Sym('cls'), 'protocol_version': 4, 'user_type_map': Sym('u'), 'stream_id': Sym('s'), 'flags': hf['COMPRESSED_FLAG'],
                                'opcode': Sym('opcode'), 'body': Sym('body'), 'decompressor': None, 'result_metadata': Sym('rm')})
    chk.judge(all(o.kind == 'raise' for o in outs), 'C04.prologue', dm, 'compressed frame without a decompressor raises', 'a compressed frame is decoded without decompression')
    chk.require('C04.prologue', 10)

    # RESULT metadata names user-defined types through UserType.make_udt_class: a stale cached class decodes rows with the wrong fields
    chk.rule('C04.udt', 'a cached UDT class is reused for result metadata only when its field names and field types are equal (shared with C28)')
    chk.borrow('C28', {'C28.udt': 'C04.udt'}, 'column metadata of a later RESULT carries the stale type and its rows drop or mis-decode fields')
