"""C41 - protocol negotiation only steps down and terminates (level proof over the finite version domain)."""
import ast

from ..core import AnalysisError, src, body_walk, walk_no_nested, qual_of
from ..cfg import CFG, Flow, enumerate_paths
from ..fold import Folder, Unfoldable
from ..guards import normalise_atom
from .c09 import attr_writes

LEVEL = 'proof'
INIT = 'cassandra/__init__.py'
CLUSTER = 'cassandra/cluster.py'
CONN = 'cassandra/connection.py'


def check(chk):
    chk.decides = ('get_lower_supported folded over every supported version (and the values just outside) returns a strictly lower, non-beta, supported version or 0; '
                   'protocol_downgrade raises for an explicitly configured version and below the minimum, otherwise assigns exactly that lower version and is the '
                   'only writer of protocol_version besides the constructor; every path through the connect loop ends in break, raise, or a call to '
                   'protocol_downgrade (which decreases a value in a finite set or raises), so the loop terminates; an unsupported-version reply is converted to '
                   'ProtocolVersionUnsupported carrying the version that was tried')
    chk.does_not_decide = 'server behaviour'
    chk.assumptions.append('ProtocolVersion constants are the finite domain; protocol_downgrade is only reached from _try_connect')
    chk.rule('C41.lower', 'get_lower_supported(v): result < v, result not beta, result in SUPPORTED_VERSIONS or 0 (0 only when nothing lower exists)')
    chk.rule('C41.downgrade', 'protocol_downgrade rows: explicit -> raise; result below MIN_SUPPORTED -> raise; else protocol_version = result')
    chk.rule('C41.writers', 'Cluster.protocol_version is written only by __init__ and protocol_downgrade')
    chk.rule('C41.loop', 'every path through the body of the connect loop ends in break, raise or protocol_downgrade')
    chk.rule('C41.unsupported', 'connection: is_unsupported_proto_version set only for the "unsupported protocol version" ProtocolException; factory raises ProtocolVersionUnsupported(endpoint, conn.protocol_version)')
    init = chk.repo.mod(INIT)
    folder = Folder(init)
    try:
        sup = tuple(folder.class_const('ProtocolVersion', 'SUPPORTED_VERSIONS'))
        beta = tuple(folder.class_const('ProtocolVersion', 'BETA_VERSIONS'))
        minv = folder.class_const('ProtocolVersion', 'MIN_SUPPORTED')
    except Unfoldable as e:
        raise AnalysisError(str(e))
    gl = init.func('ProtocolVersion.get_lower_supported')
    # shape: version = next(<gen over sorted(SUPPORTED, reverse=True) if v not in BETA and v < previous>) ; except StopIteration -> 0
    gens = [n for n in body_walk(gl) if isinstance(n, ast.GeneratorExp)]
    if len(gens) == 1:
        _lower_by_generator(chk, gl, gens[0], init, folder, sup, beta)
    else:
        _lower_by_interpretation(chk, gl, init, folder, sup, beta)

    # protocol_downgrade rows
    cl = chk.repo.mod(CLUSTER)
    pd = cl.func('Cluster.protocol_downgrade')
    paths = enumerate_paths(CFG(pd))
    rows = []
    for p in paths:
        conds = dict((normalise_atom(e)[0], pl != normalise_atom(e)[1]) for e, pl in p.conds)
        writes = [src(n.ast) for n in p.nodes if n.kind == 'stmt' and isinstance(n.ast, ast.Assign) and src(n.ast.targets[0]) == 'self.protocol_version']
        rows.append((conds, p.end.kind, writes))
    chk.judge(len(rows) == 3, 'C41.downgrade', pd, 'protocol_downgrade has three rows', 'found %d rows' % len(rows))
    for conds, kind, writes in rows:
        label = 'row %s' % sorted(conds.items())
        if conds.get('self._protocol_version_explicit') is True:
            chk.judge(kind == 'raise_stmt' and not writes, 'C41.downgrade', pd, label + ': explicit version -> raise', 'an explicitly configured protocol version is downgraded')
        elif conds.get('new_version < ProtocolVersion.MIN_SUPPORTED') is True:
            chk.judge(kind == 'raise_stmt' and not writes and conds.get('self._protocol_version_explicit') is False, 'C41.downgrade', pd, label + ': below minimum -> raise',
                      'after the lowest version failed the driver keeps going instead of giving up')
        else:
            chk.judge(kind != 'raise_stmt' and writes == ['self.protocol_version = new_version'] and conds.get('self._protocol_version_explicit') is False
                      and conds.get('new_version < ProtocolVersion.MIN_SUPPORTED') is False, 'C41.downgrade', pd, label + ': protocol_version = new_version',
                      'the downgrade row assigns %s' % writes)
    nv = [st for st in body_walk(pd) if isinstance(st, ast.Assign) and src(st.targets[0]) == 'new_version']
    chk.judge(len(nv) == 1 and src(nv[0].value) == 'ProtocolVersion.get_lower_supported(previous_version)', 'C41.downgrade', pd, 'new_version = get_lower_supported(previous_version)', 'new version computed as %s' % [src(x.value) for x in nv])
    ws = sorted(set(qual_of(f) for st, tgt, f in attr_writes(cl, 'protocol_version') if isinstance(st, ast.Assign) and src(tgt.value) == 'self' and qual_of(f).startswith('Cluster.')))
    chk.judge(ws == ['Cluster.__init__', 'Cluster.protocol_downgrade'], 'C41.writers', cl.cls('Cluster'), 'writers of Cluster.protocol_version: __init__, protocol_downgrade', 'protocol_version written by %s' % ws)
    ci = cl.func('Cluster.__init__')
    chk.judge('self._protocol_version_explicit = True' in src(ci) and 'protocol_version is not _NOT_SET' in src(ci), 'C41.writers', ci, '_protocol_version_explicit set exactly when a version was passed', 'explicit flag logic changed')

    # loop termination
    tc = cl.func('ControlConnection._try_connect')
    # the negotiation loop: in _try_connect itself or in a private method of ControlConnection it calls
    tc_scopes = [tc] + [cl.func('ControlConnection.' + c_.func.attr) for c_ in body_walk(tc) if isinstance(c_, ast.Call) and isinstance(c_.func, ast.Attribute)
                        and src(c_.func.value) == 'self' and c_.func.attr.startswith('_') and cl.has('ControlConnection.' + c_.func.attr)]
    loops, loop_fn = [], tc
    for f_ in tc_scopes:
        ls_ = [n for n in f_.body if isinstance(n, ast.While) and src(n.test) == 'True' and any(isinstance(x, ast.Call) and src(x.func).endswith('connection_factory') for x in ast.walk(n))]
        if ls_:
            loops, loop_fn = ls_, f_
            break
    if len(loops) != 1:
        raise AnalysisError('_try_connect: connect loop not found')
    tr = [n for n in loops[0].body if isinstance(n, ast.Try)]
    if len(tr) != 1 or len(loops[0].body) != 1:
        raise AnalysisError('_try_connect: loop body is not a single try')
    t = tr[0]

    def ends(stmts):
        """classification of how a block ends: set of {'break','raise','downgrade','fall'}"""
        if not stmts:
            return set(['fall'])
        last = stmts[-1]
        if isinstance(last, ast.Break) or (isinstance(last, ast.Return) and last.value is not None and loop_fn is not tc):
            # leaving the loop with the connection: break, or - when the loop lives in a helper - returning it
            return set(['break'])
        if isinstance(last, ast.Raise):
            return set(['raise'])
        if isinstance(last, ast.If):
            return ends(last.body) | ends(last.orelse)
        if isinstance(last, ast.Expr) and isinstance(last.value, ast.Call) and src(last.value.func) == 'self._cluster.protocol_downgrade':
            return set(['downgrade'])
        return set(['fall'])
    ok_path = list(t.body) + list(t.orelse)     # a try/else continues the normal path of the body
    chk.judge(ends(ok_path) == set(['break']), 'C41.loop', t, 'try body ends in break (after the shutdown check, which raises)', 'the try body can fall through and reconnect without a failure: %s' % ends(ok_path))
    for h in t.handlers:
        e = ends(h.body)
        chk.judge(e <= set(['raise', 'downgrade']), 'C41.loop', h, 'except %s ends in raise or protocol_downgrade' % src(h.type), 'handler for %s ends in %s: the loop can spin without lowering the version' % (src(h.type), sorted(e)))
    hs = dict((src(h.type), h) for h in t.handlers)
    pvu = hs.get('ProtocolVersionUnsupported')
    chk.judge(pvu is not None and any(isinstance(c_, ast.Call) and src(c_.func) == 'self._cluster.protocol_downgrade' and [src(a_) for a_ in c_.args] == ['host.endpoint', 'e.startup_version']
                                      for st_ in pvu.body for c_ in ast.walk(st_)), 'C41.loop', t, 'unsupported version -> downgrade from the version that was tried', 'downgrade starts from another version')
    pe = hs.get('ProtocolException')
    okpe = pe is not None
    if okpe:
        from ..sem import flow_of as _flow41
        g41, fl41 = _flow41(loop_fn)
        dn = [n for n in g41.stmt_nodes() if n.kind == 'stmt' and any(n.ast is x for st_ in pe.body for x in ast.walk(st_))
              and any(isinstance(x, ast.Call) and src(x.func) == 'self._cluster.protocol_downgrade' for x in ast.walk(n.ast))]
        okpe = bool(dn) and all(fa.knows('self._cluster._protocol_version_explicit') is False and fa.knows('e.is_beta_protocol_error') is True for n in dn for fa, _c in fl41.at(n))
    chk.judge(okpe, 'C41.loop', t, 'beta protocol error downgrades only an implicit version (at the downgrade: not explicit, beta error)', 'beta error handling changed')
    # the version a downgrade starts from is the one that was just refused: the version carried by the exception, or the cluster's current version (the one the
    # connection was opened with in this iteration) - never a value remembered from an earlier iteration, or the sequence steps up again and does not terminate
    for h in t.handlers:
        for c_ in [c_ for st_ in h.body for c_ in ast.walk(st_) if isinstance(c_, ast.Call) and src(c_.func) == 'self._cluster.protocol_downgrade']:
            frm = src(c_.args[1]) if len(c_.args) > 1 else None
            chk.judge(frm in ('e.startup_version', 'self._cluster.protocol_version') and src(c_.args[0]) == 'host.endpoint', 'C41.loop', c_,
                      'except %s: downgrade from %s' % (src(h.type), frm),
                      'the downgrade in the %s arm starts from %s, which is not refreshed by the loop: after two downgrades the next one is computed from the stale value again, the versions '
                      'tried go down and up (66, 65, 5, 65, 5 ...) and the negotiation never ends' % (src(h.type), frm))
    # other handlers? any broad handler would swallow the raise of protocol_downgrade
    chk.judge(set(hs) == set(['ProtocolVersionUnsupported', 'ProtocolException']), 'C41.loop', t, 'no broader handler inside the loop', 'handlers: %s' % sorted(hs))

    # connection side
    conn = chk.repo.mod(CONN)
    ws = [(st, f) for st, tgt, f in attr_writes(conn, 'is_unsupported_proto_version') if isinstance(st, ast.Assign) and src(st.value) == 'True']
    pm = conn.func('Connection.process_msg')
    good = len(ws) == 1 and qual_of(ws[0][1]) == 'Connection.process_msg'
    if good:
        g = CFG(pm)
        fl = Flow(g, 0, lambda n, c: c)
        nd = [n for n in g.stmt_nodes() if n.ast is ws[0][0]][0]
        good = all(fa.knows('isinstance(response, ProtocolException)') is True and fa.knows("'unsupported protocol version' in response.message") is True for fa, _ in fl.at(nd))
    chk.judge(good, 'C41.unsupported', pm, 'is_unsupported_proto_version only for a ProtocolException saying "unsupported protocol version"', 'flag set under another condition')
    # the waiter in factory() is woken by defunct() (connected_event.set()): the flag it then reads must already be there
    if len(ws) == 1:
        g = CFG(pm)

        def stepf(node, c):
            if node.ast is ws[0][0]:
                return True
            return c
        flf = Flow(g, False, stepf)
        dnodes = [n for n in g.stmt_nodes() if n.kind == 'stmt' and n.ast is not None and any(isinstance(x, ast.Call) and src(x.func) == 'self.defunct' for x in walk_no_nested(n.ast))]
        early = []
        for n in dnodes:
            for fa, c in flf.at(n):
                if fa.knows('isinstance(response, ProtocolException)') is True and fa.knows("'unsupported protocol version' in response.message") is not False and not c:
                    early.append(n)
        chk.judge(not early, 'C41.unsupported', pm, 'the flag is set before the connection is defuncted (which wakes the thread waiting in factory())',
                  'defunct() runs at line %s before is_unsupported_proto_version is set: factory() can wake on connected_event, find the flag still False and raise the bare '
                  'ProtocolException, so the control connection re-raises instead of stepping down' % sorted(set(n.line() for n in early)))
    fa_ = conn.func('Connection.factory')
    g = CFG(fa_)
    fl = Flow(g, 0, lambda n, c: c)
    rs = [n for n in g.nodes if n.kind == 'raise_stmt' and 'ProtocolVersionUnsupported' in src(n.ast)]
    good = len(rs) == 1 and 'ProtocolVersionUnsupported(endpoint, conn.protocol_version)' in src(rs[0].ast) and all(f.knows('conn.is_unsupported_proto_version') is True and f.knows('conn.last_error') is True for f, _ in fl.at(rs[0]))
    chk.judge(good, 'C41.unsupported', fa_, 'factory raises ProtocolVersionUnsupported(endpoint, conn.protocol_version) for that flag', 'factory conversion changed')
    chk.extra['checker_cmd'] = './check C41'

    # the rejection of a protocol version arrives in the *server's* frame generation: the header layout follows the received version byte
    chk.rule('C41.frame', 'the frame header layout is chosen from the version byte of the received frame (shared with C05)')
    chk.borrow('C05', {'C05.header': 'C41.frame'}, 'the ERROR frame of a v1/v2-only server is mis-parsed, factory() times out and no downgrade is attempted')


def _lower_by_generator(chk, gl, ge, init, folder, sup, beta):
    it = ge.generators[0]
    var = src(it.target)
    consts = {'SUPPORTED_VERSIONS': sup, 'BETA_VERSIONS': beta}
    pcls = init.cls('ProtocolVersion')
    for st in pcls.body:
        if isinstance(st, ast.Assign) and isinstance(st.targets[0], ast.Name):
            try:
                consts[st.targets[0].id] = folder.eval(st.value, cls=pcls)
            except Unfoldable:
                pass
    dflt = None
    for n in body_walk(gl):
        if isinstance(n, ast.ExceptHandler) and n.type is not None and src(n.type) == 'StopIteration':
            for st in n.body:
                if isinstance(st, ast.Assign):
                    try:
                        dflt = folder.eval(st.value, env={'ProtocolVersion': consts, 'cls': consts})
                    except Unfoldable as e:
                        raise AnalysisError('get_lower_supported: StopIteration default not foldable: %s' % e)
    if dflt is None:
        # next(<generator>, default)
        for n in body_walk(gl):
            if isinstance(n, ast.Call) and isinstance(n.func, ast.Name) and n.func.id == 'next' and len(n.args) == 2 and n.args[0] is ge:
                try:
                    dflt = folder.eval(n.args[1], env={'ProtocolVersion': consts, 'cls': consts})
                except Unfoldable as e:
                    raise AnalysisError('get_lower_supported: default of next() not foldable: %s' % e)
    if dflt is None:
        raise AnalysisError('get_lower_supported: StopIteration default not found')
    domain = sorted(set(sup) | set([min(sup) - 1, max(sup) + 1, 0, 7, 0x40]))
    for prev in domain:
        env = {'ProtocolVersion': consts, 'cls': consts, 'previous_version': prev}
        try:
            seq = folder.eval(it.iter, env=env)
            res = None
            for v in seq:
                e2 = dict(env)
                e2[var] = v
                if all(folder.eval(c, env=e2) for c in it.ifs):
                    res = folder.eval(ge.elt, env=e2)
                    break
            if res is None:
                res = dflt
        except Unfoldable as e:
            raise AnalysisError('get_lower_supported not foldable: %s' % e)
        lower = [v for v in sup if v < prev and v not in beta]
        want = max(lower) if lower else 0
        chk.judge(res == want and (res == 0 or (res < prev and res not in beta and res in sup)), 'C41.lower', gl, 'get_lower_supported(%#x) == %#x' % (prev, want),
                  'get_lower_supported(%#x) gives %#x; the next lower non-beta supported version is %#x' % (prev, res, want))
    rets = [n for n in body_walk(gl) if isinstance(n, ast.Return)]
    chk.judge(bool(rets) and all(r.value is not None and (src(r.value) == 'version' or (isinstance(r.value, ast.Call) and r.value.args and r.value.args[0] is ge)) for r in rets),
              'C41.lower', gl, 'returns the version found (or the default)', 'return value changed')


def _lower_by_interpretation(chk, gl, init, folder, sup, beta):
    """get_lower_supported written as a loop: interpreted for every version of the domain (the iterable and the class constants fold)"""
    from ..absint import Interp
    pcls = init.cls('ProtocolVersion')
    consts = {'SUPPORTED_VERSIONS': sup, 'BETA_VERSIONS': beta}
    for st in pcls.body:
        if isinstance(st, ast.Assign) and isinstance(st.targets[0], ast.Name):
            try:
                consts[st.targets[0].id] = folder.eval(st.value, cls=pcls)
            except Unfoldable:
                pass

    def effect(interp, node, c, args, kwargs, env):
        if c == ('sorted',) and len(args) == 1 and isinstance(args[0], (tuple, list)):
            return tuple(sorted(args[0], reverse=bool(kwargs.get('reverse', False))))
        if c == ('reversed',) and len(args) == 1 and isinstance(args[0], (tuple, list)):
            return tuple(reversed(args[0]))
        return NotImplemented
    domain = sorted(set(sup) | set([min(sup) - 1, max(sup) + 1, 0, 7, 0x40]))
    params = [a.arg for a in gl.args.args]
    for prev in domain:
        it = Interp(init, folder=folder, effect=effect)
        it.concrete_loops = True
        try:
            outs = it.run_all(gl, {params[0]: consts, 'ProtocolVersion': consts, params[1]: prev}, cls=pcls)
        except Exception as e:
            raise AnalysisError('get_lower_supported could not be interpreted for %#x: %s' % (prev, e))
        lower = [v for v in sup if v < prev and v not in beta]
        want = max(lower) if lower else 0
        for o in outs:
            res = o.value if o.kind == 'ok' else None
            chk.judge(res == want, 'C41.lower', gl, 'get_lower_supported(%#x) == %#x' % (prev, want),
                      'get_lower_supported(%#x) gives %r; the next lower non-beta supported version is %#x' % (prev, res, want))
