"""Term-level comparison of two Python sources of the murmur3 x64 128 hash.

`_murmur3` is interpreted (sa.absint, nothing is executed) for every key length 0..48 with the blocks and tail bytes as symbols; what
comes out is the expression tree of the returned value - constants folded, helper functions of the module followed, rotl64 / fmix /
truncate_int64 kept as opaque operators.  Two sources that compute the same expression for every length are the same algorithm, however
they are cut into statements, temporaries and helpers; a changed constant, rotation, shift, operand order of a non-commutative step or
register mix-up changes the tree.  The three operators are compared separately, on concrete sample values."""
import ast
import os

from .core import AnalysisError, Module
from .absint import Interp, Sym, text_of

VERIF = os.path.dirname(os.path.dirname(os.path.abspath(__file__)))
OPAQUE = ('rotl64', 'fmix', 'truncate_int64')
LENGTHS = tuple(range(0, 49))


def reference_module():
    return Module('spec/murmur3_reference.py', os.path.join(VERIF, 'spec', 'murmur3_reference.py'))


class _OneIter(object):
    """iter(<tuple>) in the interpreted source: remembered so that zip(it, it) can be read as pairing consecutive elements"""
    def __init__(self, items):
        self.items = tuple(items)


def _effect_for(mod, L):
    def effect(interp, node, c, args, kwargs, env):
        if c == ('body_and_tail',):
            nb, t = divmod(L, 16)
            return (tuple(Sym('b%d' % i) for i in range(nb * 2)), tuple(Sym('t%d' % i) for i in range(t)), L)
        if c == ('range',) and args and all(isinstance(a, int) for a in args):
            return tuple(range(*args))
        if c == ('iter',) and len(args) == 1 and isinstance(args[0], tuple):
            return _OneIter(args[0])
        if c == ('zip',) and args:
            if all(isinstance(a, _OneIter) for a in args) and all(a is args[0] for a in args):
                # zip(it, it, ...): consecutive groups drawn from one shared iterator
                k, items = len(args), args[0].items
                return tuple(tuple(items[i:i + k]) for i in range(0, len(items) - len(items) % k, k))
            if all(isinstance(a, tuple) for a in args):
                return tuple(zip(*args))
        if c == ('len',) and len(args) == 1 and isinstance(args[0], (tuple, list)):
            return len(args[0])
        if c and len(c) == 1 and c[0] in OPAQUE:
            return Sym('%s(%s)' % (c[0], ', '.join(text_of(a) if isinstance(a, Sym) else repr(a) for a in args)))
        if c and len(c) == 1 and mod.has(c[0]) and isinstance(mod.get(c[0]), ast.FunctionDef) and not kwargs:
            fn = mod.get(c[0])
            params = [a.arg for a in fn.args.args]
            if len(params) == len(args):
                return interp.call_func(fn, dict(zip(params, args)), None)
        return NotImplemented
    return effect


_AC = {ast.BitXor: ('^', 0), ast.Mult: ('*', 1), ast.Add: ('+', 0), ast.BitAnd: ('&', None), ast.BitOr: ('|', 0)}


def normal_form(text):
    """the expression text with associative-commutative operators (^ * + & |) flattened, their identity elements dropped, `x << 0` reduced to x
    and the operands sorted: two texts with the same normal form denote the same function of the symbols (Python integers)"""
    try:
        e = ast.parse(text, mode='eval').body
    except SyntaxError:
        return text

    def nf(n):
        if isinstance(n, ast.BinOp) and type(n.op) in _AC:
            sym, ident = _AC[type(n.op)]
            ops, work = [], [n]
            while work:
                x = work.pop()
                if isinstance(x, ast.BinOp) and type(x.op) is type(n.op):
                    work.append(x.right)
                    work.append(x.left)
                else:
                    ops.append(nf(x))
            if ident is not None:
                ops = [o for o in ops if o != repr(ident)]
            if not ops:
                return repr(ident)
            if len(ops) == 1:
                return ops[0]
            return '(' + (' %s ' % sym).join(sorted(ops)) + ')'
        if isinstance(n, ast.BinOp) and isinstance(n.op, ast.LShift):
            l_, r_ = nf(n.left), nf(n.right)
            return l_ if r_ == '0' else '(%s << %s)' % (l_, r_)
        if isinstance(n, ast.BinOp):
            return '(%s %s %s)' % (nf(n.left), type(n.op).__name__, nf(n.right))
        if isinstance(n, ast.UnaryOp):
            if isinstance(n.op, ast.USub) and isinstance(n.operand, ast.Constant):
                return repr(-n.operand.value)
            return '(%s %s)' % (type(n.op).__name__, nf(n.operand))
        if isinstance(n, ast.Call):
            return '%s(%s)' % (nf(n.func), ', '.join(nf(a) for a in n.args))
        if isinstance(n, ast.Constant):
            return repr(n.value)
        if isinstance(n, ast.Name):
            return n.id
        return ast.unparse(n)
    return nf(e)


def terms(mod, lengths=LENGTHS):
    """{key length: text of the expression _murmur3 returns}"""
    f = mod.func('_murmur3')
    out = {}
    for L in lengths:
        it = Interp(mod, effect=_effect_for(mod, L), max_forks=8)
        it.concrete_loops = True
        try:
            outs = it.run_all(f, {f.args.args[0].arg: Sym('data')})
        except AnalysisError:
            raise
        except Exception as e:
            raise AnalysisError('_murmur3 could not be interpreted for a %d byte key: %s: %s' % (L, type(e).__name__, e))
        oks = [o for o in outs if o.kind == 'ok']
        if len(oks) != 1 or len(outs) != 1:
            raise AnalysisError('_murmur3 has %d outcomes for a %d byte key (one expected)' % (len(outs), L))
        out[L] = normal_form(text_of(oks[0].value) if isinstance(oks[0].value, Sym) else repr(oks[0].value))
    return out


SAMPLES_X = (0, 1, -1, 5, 0x0123456789abcdef, -0x0123456789abcdef, 2 ** 63 - 1, -2 ** 63, 2 ** 64 + 12345, -2 ** 64 - 9, 0x7fffffffffffffff0123, -0x00ff00ff00ff00ff00ff)
SAMPLES_R = (27, 31, 33)


def operator_values(mod):
    """{(operator, args): value} for rotl64, fmix and truncate_int64 on the sample values (all arithmetic folds)"""
    out = {}

    def run(name, args):
        fn = mod.func(name)
        it = Interp(mod, effect=_effect_for(mod, 0), max_forks=8)
        params = [a.arg for a in fn.args.args]
        try:
            outs = it.run_all(fn, dict(zip(params, args)))
        except AnalysisError:
            raise
        except Exception as e:
            raise AnalysisError('%s%r could not be interpreted: %s: %s' % (name, args, type(e).__name__, e))
        oks = [o for o in outs if o.kind == 'ok']
        if len(oks) != 1 or isinstance(oks[0].value, Sym):
            raise AnalysisError('%s%r does not fold to a number (%s)' % (name, args, [o.value for o in outs][:2]))
        return oks[0].value
    for x in SAMPLES_X:
        out[('fmix', x)] = run('fmix', (x,))
        out[('truncate_int64', x)] = run('truncate_int64', (x,))
        for r in SAMPLES_R:
            out[('rotl64', x, r)] = run('rotl64', (x, r))
    return out


def compare(cur, ref):
    """-> (list of key lengths whose expression differs, list of operator samples that differ)"""
    tc, tr = terms(cur), terms(ref)
    bad_len = [L for L in LENGTHS if tc[L] != tr[L]]
    oc, orr = operator_values(cur), operator_values(ref)
    bad_op = sorted(k for k in orr if oc.get(k) != orr[k])
    return bad_len, bad_op, tc, tr


def first_difference(a, b):
    i = 0
    while i < min(len(a), len(b)) and a[i] == b[i]:
        i += 1
    return '...%s  <>  ...%s' % (a[max(0, i - 40):i + 40], b[max(0, i - 40):i + 40])
