"""Engine core: loading /repo sources, AST helpers, reporting.

Nothing here imports or executes driver code.  Sources are read from the
working tree named by VERIF_REPO (default /repo) on every run.
"""
import ast
import builtins
import hashlib
import json
import os
import sys
import time

REPO = os.environ.get('VERIF_REPO', '/repo')
VERIF = os.path.dirname(os.path.dirname(os.path.abspath(__file__)))


class AnalysisError(Exception):
    """An anchor vanished, a file failed to parse, an idiom is not understood,
    or a rule matched fewer instances than were confirmed by hand.  Exit 2."""


# ----------------------------------------------------------------------------
# modules


class Module(object):
    def __init__(self, rel, path):
        self.rel = rel
        self.path = path
        try:
            with open(path, 'rb') as f:
                raw = f.read()
        except OSError as e:
            raise AnalysisError('cannot read %s: %s' % (rel, e))
        self.digest = hashlib.sha256(raw).hexdigest()
        self.src = raw.decode('utf-8')
        try:
            self.tree = ast.parse(self.src, filename=rel)
        except SyntaxError as e:
            raise AnalysisError('cannot parse %s: %s' % (rel, e))
        self.lines = self.src.splitlines()
        if not os.environ.get('VERIF_NO_CANON'):
            from . import canon
            self.tree = canon.canonicalise(self.tree, rel)
        _link(self.tree, None, self)
        self._index = {}
        self._aliases = {}
        self._build_index(self.tree, '')
        self._build_aliases()

    def _build_index(self, node, prefix):
        for ch in ast.iter_child_nodes(node):
            if isinstance(ch, (ast.FunctionDef, ast.AsyncFunctionDef, ast.ClassDef)):
                q = prefix + ch.name
                # the first definition wins for lookups; later ones are kept under q#n
                if q in self._index:
                    n = 2
                    while '%s#%d' % (q, n) in self._index:
                        n += 1
                    self._index['%s#%d' % (q, n)] = ch
                else:
                    self._index[q] = ch
                ch._qual = q
                self._build_index(ch, q + '.')
            elif isinstance(ch, (ast.If, ast.Try, ast.With, ast.For, ast.While)):
                self._build_index(ch, prefix)
            elif isinstance(ch, ast.ExceptHandler):
                self._build_index(ch, prefix)

    def _build_aliases(self):
        # class-level `name = other_method` (e.g. `__setitem__ = _insert`, `on_add = on_up`): the name answers lookups with the function it is bound to;
        # functions() lists each function once, under its own name
        for q, c in list(self._index.items()):
            if not isinstance(c, ast.ClassDef):
                continue
            for st in c.body:
                if isinstance(st, ast.Assign) and len(st.targets) == 1 and isinstance(st.targets[0], ast.Name) and isinstance(st.value, ast.Name):
                    tgt = self._index.get('%s.%s' % (q, st.value.id)) or self._aliases.get('%s.%s' % (q, st.value.id))
                    if isinstance(tgt, (ast.FunctionDef, ast.AsyncFunctionDef)) and '%s.%s' % (q, st.targets[0].id) not in self._index:
                        self._aliases['%s.%s' % (q, st.targets[0].id)] = tgt

    def has(self, qual):
        return qual in self._index or qual in self._aliases

    def get(self, qual):
        try:
            return self._index[qual]
        except KeyError:
            if qual in self._aliases:
                return self._aliases[qual]
            raise AnalysisError('anchor vanished: %s::%s' % (self.rel, qual))

    def cls(self, name):
        n = self.get(name)
        if not isinstance(n, ast.ClassDef):
            raise AnalysisError('%s::%s is not a class' % (self.rel, name))
        return n

    def func(self, qual):
        n = self.get(qual)
        if not isinstance(n, (ast.FunctionDef, ast.AsyncFunctionDef)):
            raise AnalysisError('%s::%s is not a function' % (self.rel, qual))
        return n

    def functions(self):
        return [(q, n) for q, n in self._index.items()
                if isinstance(n, (ast.FunctionDef, ast.AsyncFunctionDef))]

    def classes(self):
        return [(q, n) for q, n in self._index.items() if isinstance(n, ast.ClassDef)]

    def methods(self, clsname):
        c = self.cls(clsname)
        return [n for n in c.body if isinstance(n, (ast.FunctionDef, ast.AsyncFunctionDef))]

    def toplevel_assign(self, name):
        """value node of a module level `name = ...` (last one wins)."""
        found = None
        for st in self.tree.body:
            if isinstance(st, ast.Assign):
                for t in st.targets:
                    if isinstance(t, ast.Name) and t.id == name:
                        found = st.value
            elif isinstance(st, ast.AnnAssign) and isinstance(st.target, ast.Name) and st.target.id == name:
                found = st.value
        if found is None:
            raise AnalysisError('anchor vanished: module constant %s in %s' % (name, self.rel))
        return found


_SINGLETONS = (ast.expr_context, ast.operator, ast.unaryop, ast.cmpop, ast.boolop)


def _link(node, parent, mod):
    # Load() / Store() / Add() ... are shared singletons of the parser: they belong to no tree and must not point into one
    if isinstance(node, _SINGLETONS):
        return
    node._parent = parent
    node._mod = mod
    for ch in ast.iter_child_nodes(node):
        _link(ch, node, mod)


class Repo(object):
    def __init__(self, root=None):
        self.root = root or REPO
        self._mods = {}

    def mod(self, rel):
        if rel not in self._mods:
            self._mods[rel] = Module(rel, os.path.join(self.root, rel))
        return self._mods[rel]

    def exists(self, rel):
        return os.path.exists(os.path.join(self.root, rel))

    def read(self, rel):
        try:
            with open(os.path.join(self.root, rel), 'rb') as f:
                return f.read().decode('utf-8')
        except OSError as e:
            raise AnalysisError('cannot read %s: %s' % (rel, e))

    def consulted(self):
        return dict((r, m.digest[:16]) for r, m in sorted(self._mods.items()))

    def all_py(self, sub='cassandra'):
        out = []
        for d, _dirs, files in os.walk(os.path.join(self.root, sub)):
            for f in files:
                if f.endswith('.py'):
                    out.append(os.path.relpath(os.path.join(d, f), self.root))
        return sorted(out)


# ----------------------------------------------------------------------------
# AST helpers


def parent(node):
    return getattr(node, '_parent', None)


def enclosing(node, types):
    p = parent(node)
    while p is not None and not isinstance(p, types):
        p = parent(p)
    return p


def enclosing_func(node):
    return enclosing(node, (ast.FunctionDef, ast.AsyncFunctionDef, ast.Lambda))


def enclosing_class(node):
    return enclosing(node, (ast.ClassDef,))


def qual_of(node):
    """qualified name of the function/class enclosing (or being) node."""
    n = node
    while n is not None and not hasattr(n, '_qual'):
        n = parent(n)
    return getattr(n, '_qual', '<module>')


def src(node):
    try:
        return ast.unparse(node)
    except Exception:  # pragma: no cover
        return '<%s>' % type(node).__name__


def chain(node):
    """attribute chain of an expression as a tuple of names, or None.
    self._connection.lock -> ('self','_connection','lock'); f(x).y -> None"""
    parts = []
    while isinstance(node, ast.Attribute):
        parts.append(node.attr)
        node = node.value
    if isinstance(node, ast.Name):
        parts.append(node.id)
        return tuple(reversed(parts))
    return None


def call_chain(call):
    if isinstance(call, ast.Call):
        return chain(call.func)
    return None


def call_name(call):
    """last component of the callee of a call, or None."""
    if not isinstance(call, ast.Call):
        return None
    f = call.func
    if isinstance(f, ast.Attribute):
        return f.attr
    if isinstance(f, ast.Name):
        return f.id
    return None


def walk_no_nested(node):
    """ast.walk that does not descend into nested function/class/lambda bodies
    (the nested definition node itself is yielded; the root is always entered)."""
    yield node
    for ch in ast.iter_child_nodes(node):
        if isinstance(ch, (ast.FunctionDef, ast.AsyncFunctionDef, ast.ClassDef, ast.Lambda)):
            yield ch
        else:
            for n in walk_no_nested(ch):
                yield n


def calls_in(node, nested=False):
    it = ast.walk(node) if nested else walk_no_nested(node)
    return [n for n in it if isinstance(n, ast.Call)]


def body_walk(func, nested=False):
    """all nodes of a function body (not the def line's decorators/args)."""
    for st in func.body:
        it = ast.walk(st) if nested else walk_no_nested(st)
        for n in it:
            yield n


def names_read(node):
    return set(n.id for n in ast.walk(node) if isinstance(n, ast.Name) and isinstance(n.ctx, ast.Load))


def is_const(node, value=None):
    if not isinstance(node, ast.Constant):
        return False
    return value is None or (node.value == value and type(node.value) is type(value))


def is_none(node):
    return isinstance(node, ast.Constant) and node.value is None


def assigned_targets(stmt):
    """flat list of target expressions assigned by a statement."""
    out = []

    def flat(t):
        if isinstance(t, (ast.Tuple, ast.List)):
            for e in t.elts:
                flat(e)
        elif isinstance(t, ast.Starred):
            flat(t.value)
        else:
            out.append(t)
    if isinstance(stmt, ast.Assign):
        for t in stmt.targets:
            flat(t)
    elif isinstance(stmt, (ast.AugAssign, ast.AnnAssign)):
        flat(stmt.target)
    elif isinstance(stmt, (ast.For, ast.AsyncFor)):
        flat(stmt.target)
    elif isinstance(stmt, (ast.With, ast.AsyncWith)):
        for it in stmt.items:
            if it.optional_vars is not None:
                flat(it.optional_vars)
    return out


def decorators(func):
    out = []
    for d in func.decorator_list:
        c = chain(d.func if isinstance(d, ast.Call) else d)
        out.append(c[-1] if c else src(d))
    return out


def loc(node):
    m = getattr(node, '_mod', None)
    return (m.rel if m else '?', getattr(node, 'lineno', 0))


# exception class hierarchy by *name*: builtins plus classes defined in the repo
_BUILTIN_EXC = dict((n, o) for n, o in vars(builtins).items()
                    if isinstance(o, type) and issubclass(o, BaseException))


class ExcHierarchy(object):
    def __init__(self, repo, rels):
        self.bases = {}
        for rel in rels:
            if not repo.exists(rel):
                continue
            for q, c in repo.mod(rel).classes():
                names = []
                for b in c.bases:
                    ch = chain(b)
                    if ch:
                        names.append(ch[-1])
                self.bases.setdefault(c.name, set()).update(names)

    def is_sub(self, name, of):
        """True / False / None(unknown) whether exception class `name` is a subclass of `of`."""
        if name == of or of in ('BaseException',):
            return True
        if name in _BUILTIN_EXC and of in _BUILTIN_EXC:
            return issubclass(_BUILTIN_EXC[name], _BUILTIN_EXC[of])
        seen = set()
        work = [name]
        known = True
        while work:
            n = work.pop()
            if n in seen:
                continue
            seen.add(n)
            if n == of:
                return True
            if n in _BUILTIN_EXC:
                if of in _BUILTIN_EXC and issubclass(_BUILTIN_EXC[n], _BUILTIN_EXC[of]):
                    return True
                continue
            if n not in self.bases:
                known = False
                continue
            work.extend(self.bases[n])
        return False if known else None


# ----------------------------------------------------------------------------
# reporting


class Check(object):
    """Collects rule instances, violations and evidence for one property."""

    def __init__(self, pid, tier='quick', level='other'):
        self.pid = pid
        self.tier = tier
        self.level = level
        self.t0 = time.time()
        self.repo = Repo()
        self.rules = {}
        self.instances = []      # (rule, file, func, line, construct, verdict, nontrivial)
        self.violations = []     # dicts
        self.notes = []
        self.decides = ''
        self.does_not_decide = ''
        self.assumptions = []
        self.extra = {}
        self.obligations = 0
        self.discharged = 0

    # -- registration
    def rule(self, rid, text):
        self.rules[rid] = text

    def _where(self, node):
        if isinstance(node, tuple):
            return node
        f, line = loc(node)
        return (f, qual_of(node), line)

    def ok(self, rid, node, construct, nontrivial=True, detail=None):
        assert rid in self.rules, rid
        f, fn, line = self._where(node)
        self.instances.append((rid, f, fn, line, construct, 'ok', nontrivial, detail))
        self.obligations += 1
        self.discharged += 1

    def viol(self, rid, node, construct, what):
        assert rid in self.rules, rid
        f, fn, line = self._where(node)
        self.instances.append((rid, f, fn, line, construct, 'VIOLATION', True, what))
        self.obligations += 1
        self.violations.append({'property': self.pid, 'rule': rid, 'rule_text': self.rules[rid],
                                'file': f, 'function': fn, 'line': line,
                                'construct': construct, 'what': what})

    def judge(self, cond, rid, node, construct, what, nontrivial=True):
        if cond:
            self.ok(rid, node, construct, nontrivial)
        else:
            self.viol(rid, node, construct, what)
        return cond

    def borrow(self, other_pid, rule_map, why):
        """runs the rule set of another property on the same tree and adopts the instances of the rules named in rule_map
        {their rule id: our rule id}: a structural condition that two properties both need is decided once and reported under both.
        Known findings listed for the other property are not adopted (they are reported there)."""
        import importlib
        chain_ = getattr(self, '_borrow_chain', (self.pid,))
        if other_pid in chain_:
            raise AnalysisError('cyclic borrow: %s' % ' -> '.join(chain_ + (other_pid,)))
        sub = Check(other_pid, tier=self.tier)
        sub.repo = self.repo
        sub._borrow_chain = chain_ + (other_pid,)
        mod = importlib.import_module('.props.%s' % other_pid.lower(), __package__)
        mod.check(sub)
        kf = set((e['rule'], e['function'], e['construct']) for e in load_known_findings() if e.get('status') == 'known' and e.get('property') == other_pid)
        n = 0
        for (rid, f, fn, line, construct, verdict, nontrivial, detail) in sub.instances:
            if rid not in rule_map:
                continue
            mine = rule_map[rid]
            assert mine in self.rules, mine
            if verdict == 'ok':
                self.ok(mine, (f, fn, line), construct, nontrivial)
            elif (rid, fn, construct) not in kf:
                self.viol(mine, (f, fn, line), construct, '%s (%s)' % (detail, why))
            n += 1
        if n == 0:
            raise AnalysisError('borrowed rules %s of %s matched no instance' % (sorted(rule_map), other_pid))
        return n

    def count(self, rid):
        return sum(1 for i in self.instances if i[0] == rid)

    def require(self, rid, minimum):
        n = self.count(rid)
        if n < minimum:
            raise AnalysisError('rule %s matched %d instance(s), at least %d were confirmed by hand; '
                                'the anchor moved or an idiom is no longer recognised' % (rid, n, minimum))

    def note(self, s):
        self.notes.append(s)

    # -- finishing
    def finish(self):
        kf = load_known_findings()
        listed = {}
        for e in kf:
            if e.get('status') == 'known' and e.get('property') == self.pid:
                listed[(e['rule'], e['function'], e['construct'])] = e
        new = []
        known_hit = []
        for v in self.violations:
            k = (v['rule'], v['function'], v['construct'])
            if k in listed:
                known_hit.append((v, listed[k]))
            else:
                new.append(v)
        for v, e in known_hit:
            print('KNOWN-FINDING: property=%s %s::%s [%s] %s' % (
                self.pid, v['file'], v['function'], v['rule'], e.get('what') or v['what']))
        # a listed finding that no longer fires is reported (informational only)
        hit_keys = set((v['rule'], v['function'], v['construct']) for v, _ in known_hit)
        for k, e in listed.items():
            if k not in hit_keys:
                print('NOTE: listed known finding no longer observed: property=%s %s [%s] %s' % (
                    self.pid, e['function'], e['rule'], e['construct']))
        vdir = os.path.join(VERIF, 'evidence', 'violations')
        paths = []
        if new:
            os.makedirs(vdir, exist_ok=True)
        for i, v in enumerate(new):
            key = hashlib.sha1(json.dumps([v['rule'], v['function'], v['construct']]).encode()).hexdigest()[:10]
            p = os.path.join(vdir, '%s-%s.json' % (self.pid, key))
            with open(p, 'w') as f:
                json.dump(v, f, indent=1)
            paths.append(p)
            print('%s:%s: [%s/%s] in %s: %s -- %s' % (v['file'], v['line'], self.pid, v['rule'],
                                                    v['function'], v['construct'], v['what']))
            print('VIOLATION property=%s replay=%s' % (self.pid, p))
        self._write_evidence(len(new), len(known_hit))
        return 1 if new else 0

    def _write_evidence(self, nviol, nknown):
        inst = self.instances
        distinct = set((i[0], i[1], i[2], i[4]) for i in inst if i[6])
        samples = []
        seen_rules = {}
        for i in inst:
            if seen_rules.get(i[0], 0) < 2 and len(samples) < 40:
                seen_rules[i[0]] = seen_rules.get(i[0], 0) + 1
                samples.append({'rule': i[0], 'file': i[1], 'function': i[2], 'line': i[3],
                                'construct': i[4], 'verdict': i[5]})
        per_rule = {}
        for i in inst:
            per_rule[i[0]] = per_rule.get(i[0], 0) + 1
        cov = {
            'evaluations': len(inst),
            'distinct_nontrivial': len(distinct),
            'rule': 'one evaluation = one repository-specific rule applied to one construct of /repo '
                    '(call site, attribute write, CFG path row, registry entry, (class, version, valuation) point); '
                    'non-trivial = the construct carried at least one effect or branch relevant to the rule; '
                    'distinct = distinct (rule, file, function, construct)',
            'samples': samples or [{'note': 'no instance'}],
            'explanation': 'static analysis of the current working tree of %s; decides: %s; does not decide: %s'
                           % (self.repo.root, self.decides or '(see rules)', self.does_not_decide or '(n/a)'),
            'rules': self.rules,
            'instances_per_rule': per_rule,
            'modules_consulted': self.repo.consulted(),
            'functions_analysed': sorted(set('%s::%s' % (i[1], i[2]) for i in inst)),
            'decides': self.decides,
            'does_not_decide': self.does_not_decide,
            'known_findings_matched': nknown,
            'notes': self.notes,
            'exhaustive': True,
        }
        if self.level == 'proof':
            cov.update({'obligations': self.obligations, 'discharged': self.discharged,
                        'checker_cmd': './check %s' % self.pid,
                        'trusted_base': ['CPython ast parser', '/verif/sa engine (CFG, guard domain, path enumeration)']})
        cov.update(self.extra)
        ev = {
            'property_id': self.pid,
            'tier': self.tier,
            'seed': int(os.environ.get('VERIF_SEED', '0') or 0),
            'level': self.level,
            'coverage': cov,
            'assumptions': self.assumptions,
            'wall_s': round(time.time() - self.t0, 3),
            'violations': nviol,
        }
        os.makedirs(os.path.join(VERIF, 'evidence'), exist_ok=True)
        out = os.environ.get('VERIF_EVIDENCE_DIR') or os.path.join(VERIF, 'evidence')
        os.makedirs(out, exist_ok=True)
        with open(os.path.join(out, '%s.json' % self.pid), 'w') as f:
            json.dump(ev, f, indent=1, sort_keys=True)


_KF = None


def load_known_findings():
    global _KF
    if _KF is None:
        p = os.path.join(VERIF, 'known_findings.json')
        if os.path.exists(p):
            with open(p) as f:
                _KF = json.load(f).get('findings', [])
        else:
            _KF = []
    return _KF
