"""Parse trees of the repository's .pyx files, using the Cython *parser* the repository's own
environment ships (no compilation, nothing is executed)."""
import os

from .core import AnalysisError, REPO

try:
    from Cython.Compiler.TreeFragment import parse_from_strings
    from Cython.Compiler.Visitor import TreeVisitor
    HAVE = True
except Exception as _e:  # pragma: no cover
    HAVE = False
    _ERR = _e


class PyxModule(object):
    def __init__(self, repo, rel):
        if not HAVE:
            raise AnalysisError('the Cython parser is not importable in this interpreter: %s' % (_ERR,))
        self.rel = rel
        try:
            text = repo.read(rel)
        except AnalysisError:
            raise
        self.lines = text.split('\n')
        # `include "x.pyx"` lines are parsed separately by the caller; blank them to keep line numbers
        body = '\n'.join('' if l.startswith('include ') else l for l in self.lines)
        try:
            self.tree = parse_from_strings(os.path.basename(rel).split('.')[0], body)
        except Exception as e:
            raise AnalysisError('cannot parse %s with the Cython parser: %s' % (rel, e))
        self._nodes = None

    def nodes(self):
        if self._nodes is None:
            out = []

            class V(TreeVisitor):
                def visit_Node(s, node):
                    out.append(node)
                    s.visitchildren(node)
            V().visit(self.tree)
            self._nodes = out
        return self._nodes

    def classes(self):
        return dict((n.class_name, n) for n in self.nodes() if type(n).__name__ == 'CClassDefNode')

    def funcs(self, within=None):
        """{name: node} of def / cdef functions (optionally inside a cdef class node)."""
        src_nodes = walk(within) if within is not None else self.nodes()
        out = {}
        for n in src_nodes:
            t = type(n).__name__
            if t == 'DefNode':
                out[n.name] = n
            elif t == 'CFuncDefNode':
                out[fname(n)] = n
        return out

    def line(self, node):
        return node.pos[1] if getattr(node, 'pos', None) else 0


def fname(cfunc):
    d = cfunc.declarator
    while d is not None and not hasattr(d, 'name'):
        d = getattr(d, 'base', None)
    return getattr(d, 'name', '?')


def walk(node):
    out = []

    class V(TreeVisitor):
        def visit_Node(s, n):
            out.append(n)
            s.visitchildren(n)
    V().visit(node)
    return out


def text(e):
    """small unparser for the expression kinds the checks look at."""
    if e is None:
        return 'None'
    t = type(e).__name__
    if t == 'NameNode':
        return e.name
    if t == 'AttributeNode':
        return '%s.%s' % (text(e.obj), e.attribute)
    if t in ('IntNode', 'FloatNode'):
        return str(e.value)
    if t in ('UnicodeNode', 'BytesNode', 'IdentifierStringNode'):
        return repr(e.value)
    if t == 'BoolNode':
        return str(e.value)
    if t == 'NoneNode':
        return 'None'
    if t in ('SimpleCallNode', 'GeneralCallNode'):
        args = getattr(e, 'args', None) or []
        return '%s(%s)' % (text(e.function), ', '.join(text(a) for a in args))
    if t == 'AmpersandNode':
        return '&%s' % text(e.operand)
    if t == 'IndexNode':
        return '%s[%s]' % (text(e.base), text(e.index))
    if t == 'PrimaryCmpNode':
        return '%s %s %s' % (text(e.operand1), e.operator, text(e.operand2))
    if t == 'BoolBinopNode':
        return '%s %s %s' % (text(e.operand1), e.operator, text(e.operand2))
    if t == 'NotNode':
        return 'not %s' % text(e.operand)
    if t in ('AddNode', 'SubNode', 'MulNode', 'DivNode', 'IntBinopNode', 'NumBinopNode', 'BinopNode', 'PowNode', 'ModNode'):
        return '%s %s %s' % (text(e.operand1), getattr(e, 'operator', '?'), text(e.operand2))
    if t == 'TupleNode':
        return '(%s)' % ', '.join(text(a) for a in e.args)
    if t == 'CondExprNode':
        return '%s if %s else %s' % (text(e.true_val), text(e.test), text(e.false_val))
    if t == 'SliceIndexNode':
        return '%s[%s:%s]' % (text(e.base), text(e.start) if e.start is not None else '', text(e.stop) if e.stop is not None else '')
    if t == 'TypecastNode':
        return text(e.operand)
    return '<%s>' % t


def parent_map(root):
    pm = {}

    class V(TreeVisitor):
        def visit_Node(s, n):
            for attr in n.child_attrs or ():
                ch = getattr(n, attr, None)
                if ch is None:
                    continue
                for c in (ch if isinstance(ch, list) else [ch]):
                    if c is not None and hasattr(c, 'child_attrs'):
                        pm[id(c)] = n
            s.visitchildren(n)
    V().visit(root)
    return pm
