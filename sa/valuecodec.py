"""Extraction of wire-layout facts from the value codecs in cassandra/cqltypes.py
(shared by C01 mirror rules and C02 specification rules)."""
import ast

from .core import AnalysisError, chain, src, body_walk, parent
from .fold import Folder, Unfoldable
from .absint import Interp, Sym, TriVal, text_of

CQLTYPES = 'cassandra/cqltypes.py'
MARSHAL = 'cassandra/marshal.py'


class Codecs(object):
    def __init__(self, repo):
        self.repo = repo
        self.mod = repo.mod(CQLTYPES)
        self.marshal = repo.mod(MARSHAL)
        self.folder = Folder(self.mod, others=[self.marshal])
        self.fmt = {}          # pack/unpack function name -> struct format
        self.structs = {}      # struct object name -> format
        for st in self.marshal.tree.body:
            if not isinstance(st, ast.Assign):
                continue
            v = st.value
            if isinstance(v, ast.Call) and (chain(v.func) or ('',))[-1] == '_make_packer' and isinstance(st.targets[0], ast.Tuple) \
                    and v.args and isinstance(v.args[0], ast.Constant):
                for t in st.targets[0].elts:
                    self.fmt[t.id] = v.args[0].value
            elif isinstance(v, ast.Call) and (chain(v.func) or ('',))[-1] == 'Struct' and v.args and isinstance(v.args[0], ast.Constant) \
                    and isinstance(st.targets[0], ast.Name):
                self.structs[st.targets[0].id] = v.args[0].value
        for st in self.marshal.tree.body:
            if isinstance(st, ast.Assign) and isinstance(st.targets[0], ast.Name) and isinstance(st.value, ast.Attribute) \
                    and isinstance(st.value.value, ast.Name) and st.value.value.id in self.structs and st.value.attr in ('pack', 'unpack'):
                self.fmt[st.targets[0].id] = self.structs[st.value.value.id]
        if len(self.fmt) < 20:
            raise AnalysisError('marshal pack/unpack table not recognised (%d entries)' % len(self.fmt))
        self.special = ('varint_pack', 'varint_unpack', 'vints_pack', 'vints_unpack', 'uvint_pack', 'uvint_unpack')

    # -- class lookup
    def classes(self):
        return [c for q, c in self.mod.classes() if '.' not in q]

    def find_method(self, cls, name):
        """(FunctionDef, owner ClassDef) following in-module bases."""
        c = cls
        guard = 0
        while c is not None and guard < 12:
            guard += 1
            for st in c.body:
                if isinstance(st, ast.FunctionDef) and st.name == name:
                    return st, c
            nxt = None
            for b in c.bases:
                bc = chain(b)
                if bc and self.mod.has(bc[-1]) and isinstance(self.mod.get(bc[-1]), ast.ClassDef):
                    nxt = self.mod.get(bc[-1])
                    break
            c = nxt
        return None, None

    def class_attr(self, cls, name):
        c = cls
        guard = 0
        while c is not None and guard < 12:
            guard += 1
            for st in c.body:
                if isinstance(st, ast.Assign):
                    for t in st.targets:
                        if isinstance(t, ast.Name) and t.id == name:
                            return st.value
            nxt = None
            for b in c.bases:
                bc = chain(b)
                if bc and self.mod.has(bc[-1]) and isinstance(self.mod.get(bc[-1]), ast.ClassDef):
                    nxt = self.mod.get(bc[-1])
                    break
            c = nxt
        return None

    # -- syntactic facts
    def formats_in(self, func, kind):
        """set of struct formats (or special codec names) used by pack ('w') / unpack ('r') calls anywhere in func."""
        out = set()
        for n in body_walk(func, nested=True):
            if not isinstance(n, ast.Call):
                continue
            c = chain(n.func)
            if not c:
                continue
            name = c[-1]
            if len(c) == 1 and name in self.fmt and ((kind == 'w' and name.endswith('_pack')) or (kind == 'r' and name.endswith('_unpack'))):
                out.add(self.fmt[name])
            elif len(c) == 1 and name in self.special and ((kind == 'w') == name.endswith('_pack')):
                out.add(name.rsplit('_', 1)[0])
            elif len(c) == 2 and c[0] in self.structs and ((kind == 'w' and c[1] == 'pack') or (kind == 'r' and c[1] in ('unpack', 'unpack_from'))):
                out.add(self.structs[c[0]])
            elif c == ('struct', 'pack') and kind == 'w' and n.args:
                out.add(self._fmt_text(n.args[0]))
            elif c in (('struct', 'unpack_from'), ('struct', 'unpack')) and kind == 'r' and n.args:
                out.add(self._fmt_text(n.args[0]))
        return out

    def _fmt_text(self, node):
        if isinstance(node, ast.Constant):
            return node.value
        if isinstance(node, ast.BinOp) and isinstance(node.left, ast.Constant):
            return node.left.value + '*'
        return src(node)

    # -- abstract interpretation of codec bodies
    def effect(self, interp, call, c, args, kwargs, env):
        if c and len(c) == 1 and c[0] in env and isinstance(env[c[0]], Sym):
            c = (env[c[0]].text,)
        if c and len(c) == 1 and (c[0] in self.fmt or c[0] in self.special):
            kind = 'pack' if c[0].endswith('_pack') else 'unpack'
            a = call.args[0] if call.args else None
            interp.events.append((kind, c[0], text_of(args[0]) if args else '', a))
            return Sym('%s(%s)' % (c[0], text_of(args[0]) if args else ''))
        if c and c[-1] == 'write' and len(args) == 1 and len(c) == 2:
            interp.events.append(('raw', text_of(args[0])))
            return None
        if c and c[-1] in ('to_binary', 'from_binary', 'serialize', 'deserialize') and len(c) >= 2 and c[0] not in ('self',) \
                and len(args) >= 2:
            interp.events.append(('sub', c[-1], text_of(args[0]), args[1]))
            return Sym('%s(%s)' % (c[-1], text_of(args[0])))
        if c and c[-1] == 'append' and len(args) == 1:
            interp.events.append(('append', '.'.join(c[:-1]), text_of(args[0]) if not isinstance(args[0], (Sym, TriVal)) else args[0].text))
            return None
        return NotImplemented

    def run(self, cls, func, owner, pv, extra_env=None, valuation=None):
        it = Interp(self.mod, self.folder, effect=self.effect, valuation=valuation or {}, max_forks=256)
        params = [a.arg for a in func.args.args]
        env = dict((p, Sym(p)) for p in params)
        for p in params:
            if p == 'protocol_version':
                env[p] = pv
        env['__owner__'] = owner
        if extra_env:
            env.update(extra_env)
        return it.run_all(func, env, cls)


def shape(events, fmt, special):
    """nested token list: ('fmt', f) | ('codec', name) | ('sub', fn, proto) | ('loop', [...])"""
    stack = [[]]
    for ev in events:
        if ev[0] in ('pack', 'unpack'):
            if ev[0] == 'pack' and len(ev) > 2 and str(ev[2]).replace(' ', '') in ('-1', '(-1)'):
                continue    # the constant null marker (a negative length), wherever it is built: not part of the layout of present elements
            if ev[1] in fmt:
                stack[-1].append(('fmt', fmt[ev[1]]))
            else:
                stack[-1].append(('codec', ev[1].rsplit('_', 1)[0]))
        elif ev[0] == 'sub':
            stack[-1].append(('sub', ev[3] if not isinstance(ev[3], (Sym, TriVal)) else ev[3].text))
        elif ev[0] == 'loop':
            stack.append([])
        elif ev[0] == 'endloop':
            b = stack.pop()
            stack[-1].append(('loop', tuple(b)))
    return tuple(stack[0])


def show_shape(sh):
    out = []
    for t in sh:
        if t[0] == 'loop':
            out.append('loop[%s]' % show_shape(t[1]))
        elif t[0] == 'sub':
            out.append('elem(proto=%s)' % (t[1],))
        else:
            out.append(t[1])
    return ' '.join(out)
