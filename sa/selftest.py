"""Thorough tier, second half: after the analysis held on the current tree (./check <id> already
returned 0 with tier=thorough), re-run the same analysis on scratch copies of the *current* working
tree with one recorded change applied each (variants/index.json: the seeded changes under
/verif/seeded plus hand-written variants under /verif/variants).  Nothing of the driver is executed:
each variant is only parsed and analysed.  The outcome is recorded under coverage.selftest of the
evidence file.

  * a variant expected to be caught and reported by the analysis        -> ok
  * a variant whose patch no longer applies to the current tree          -> skipped (tree drifted)
  * a variant recorded as an honest miss (expect = "miss")               -> listed, never an error
  * a behaviour-preserving variant (expect = "silent") the analysis stays quiet on -> ok; reporting it
    would be a false alarm of the checker                                   -> ANALYSIS-ERROR, exit 2
  * a variant expected to be caught that the analysis does not report    -> ANALYSIS-ERROR, exit 2
    (the checker lost the ability it was confirmed to have; not a statement about the property)
"""
import json
import os
import shutil
import subprocess
import sys
import tempfile
import time
from concurrent.futures import ThreadPoolExecutor

from .core import REPO, VERIF

INDEX = os.path.join(VERIF, 'variants', 'index.json')


def variants_for(pid):
    out = []
    if os.path.exists(INDEX):
        with open(INDEX) as f:
            idx = json.load(f)
        for v in idx['variants']:
            exp = v.get('expect', {}).get(pid)
            if exp in ('caught', 'miss', 'silent'):
                out.append((v['name'], os.path.join(VERIF, v['patch']), exp, v.get('what', '')))
    return out


def _copy_tree(dst):
    # only what the analysis reads: the package sources (py / pyx / pxd)
    def ign(d, names):
        return [n for n in names if n == '__pycache__' or n.endswith(('.so', '.pyc', '.o'))]
    shutil.copytree(os.path.join(REPO, 'cassandra'), os.path.join(dst, 'cassandra'), ignore=ign)


def _one(pid, name, patch, expect, what, base):
    d = tempfile.mkdtemp(prefix='v_', dir=base)
    try:
        _copy_tree(d)
        p = subprocess.run(['git', 'apply', '--include=cassandra/*', '-p1', patch], cwd=d, capture_output=True, text=True)
        if p.returncode != 0:
            return dict(variant=name, expect=expect, outcome='skipped', detail='patch does not apply to the current tree')
        env = dict(os.environ, VERIF_REPO=d, VERIF_EVIDENCE_DIR=os.path.join(d, '_ev'), VERIF_TIER='quick')
        r = subprocess.run([sys.executable, '-B', '-m', 'sa.main', pid], cwd=VERIF, env=env, capture_output=True, text=True)
        lines = [l for l in r.stdout.splitlines() if l.startswith('cassandra/') and '[%s/' % pid in l]
        if r.returncode == 1:
            outcome = 'caught'
        elif r.returncode == 0:
            outcome = 'not reported'
        else:
            outcome = 'analysis-error'
        return dict(variant=name, expect=expect, outcome=outcome, what=what, report=[l[:300] for l in lines[:3]],
                    detail=(r.stdout + r.stderr)[-400:] if outcome == 'analysis-error' else '')
    finally:
        shutil.rmtree(d, ignore_errors=True)


def run(pid):
    t0 = time.time()
    vs = variants_for(pid)
    base = tempfile.mkdtemp(prefix='verif_selftest_%s_' % pid)
    try:
        with ThreadPoolExecutor(max_workers=min(16, max(1, len(vs)))) as ex:
            res = list(ex.map(lambda v: _one(pid, v[0], v[1], v[2], v[3], base), vs))
    finally:
        shutil.rmtree(base, ignore_errors=True)
    bad = [r for r in res if (r['expect'] == 'caught' and r['outcome'] in ('not reported', 'analysis-error')) or
           (r['expect'] == 'silent' and r['outcome'] in ('caught', 'analysis-error'))]
    summary = {
        'variants': len(res),
        'caught': sum(1 for r in res if r['outcome'] == 'caught'),
        'silent_ok': sum(1 for r in res if r['expect'] == 'silent' and r['outcome'] == 'not reported'),
        'skipped_patch_does_not_apply': sum(1 for r in res if r['outcome'] == 'skipped'),
        'recorded_misses': [r['variant'] for r in res if r['expect'] == 'miss'],
        'unexpected': [r['variant'] for r in bad],
        'results': res,
        'wall_s': round(time.time() - t0, 2),
        'rule': 'each variant = the current working tree of cassandra/ copied to a scratch directory with one recorded change applied, '
                'analysed statically by the same check; expected outcome recorded in variants/index.json when the variant was confirmed',
    }
    evdir = os.environ.get('VERIF_EVIDENCE_DIR') or os.path.join(VERIF, 'evidence')
    p = os.path.join(evdir, '%s.json' % pid)
    try:
        with open(p) as f:
            ev = json.load(f)
        ev['coverage']['selftest'] = summary
        ev['wall_s'] = round(ev.get('wall_s', 0) + summary['wall_s'], 3)
        with open(p, 'w') as f:
            json.dump(ev, f, indent=1, sort_keys=True)
    except (IOError, ValueError):
        pass
    print('selftest %s: %d variants, %d caught, %d skipped (patch does not apply), %d recorded misses'
          % (pid, summary['variants'], summary['caught'], summary['skipped_patch_does_not_apply'], len(summary['recorded_misses'])))
    for r in bad:
        print('ANALYSIS-ERROR property=%s self-test: variant %s (%s) is expected to be %s but the analysis says %s %s'
              % (pid, r['variant'], r.get('what', '')[:120], 'reported' if r['expect'] == 'caught' else 'left alone', r['outcome'], r.get('detail', '')[-200:]))
    return 2 if bad else 0
