"""Shared facts about cassandra.cluster.ResponseFuture: outcome-effect classification and path counting."""
import ast

from .core import AnalysisError, src, walk_no_nested, body_walk
from .cfg import CFG, Flow

CLUSTER = 'cassandra/cluster.py'

FINAL_RESULT = 'final_result'
FINAL_EXC = 'final_exception'
RETRY = 'retry'
REPREPARE = 'reprepare'
ASYNC = 'async_continuation'
SEND = 'send'
TIMEOUT = 'timeout'
DELEGATE = 'delegate'

TERMINAL = (FINAL_RESULT, FINAL_EXC)


def classify_call(call):
    """outcome effect of one call expression inside a ResponseFuture method, or None."""
    f = src(call.func)
    if f == 'self._set_final_result':
        return FINAL_RESULT
    if f == 'self._set_final_exception':
        return FINAL_EXC
    if f == 'self._handle_continuous_paging_first_response':
        return FINAL_RESULT
    if f in ('self._retry', 'self._handle_retry_decision'):
        return RETRY
    if f == 'self._on_timeout':
        return TIMEOUT
    if f in ('self.send_request', 'self._query', 'self._reprepare'):
        return SEND
    if f == 'self.session.submit' and call.args:
        a0 = src(call.args[0])
        if a0 == 'self._reprepare':
            return REPREPARE
        if a0 == 'refresh_schema_and_set_result':
            return ASYNC
        if a0 == 'self._retry_task':
            return RETRY
    if f.endswith('._set_keyspace_for_all_pools') and any(src(a) == 'self._set_keyspace_completed' for a in call.args):
        return ASYNC
    return None


def effects_of_stmt(stmt):
    out = []
    for n in walk_no_nested(stmt):
        if isinstance(n, ast.Call):
            e = classify_call(n)
            if e:
                out.append((e, n))
    return out


def outcome_flow(func, may_raise=None):
    """Flow whose custom state is the tuple of outcome effects seen so far on the path (saturating at 3)."""
    g = CFG(func, may_raise=may_raise)

    def step(node, c):
        if node.ast is not None and node.kind in ('stmt', 'return', 'test'):
            for e, _n in effects_of_stmt(node.ast):
                if len(c) < 3:
                    c = c + (e,)
        return c
    return g, Flow(g, (), step)
