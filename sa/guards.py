"""Three-valued guard domain {None, falsy-non-None, truthy} and atom normalisation."""
import ast
import itertools

from .core import src, is_none

NONE, FALSY, TRUTHY = 'None', 'falsy', 'truthy'
TRI = (NONE, FALSY, TRUTHY)

_CMP_NORM = {
    ast.IsNot: (ast.Is, True), ast.NotEq: (ast.Eq, True), ast.NotIn: (ast.In, True),
}


def normalise_atom(expr):
    """-> (key text, flip).  `x is not None` -> ('x is None', True);  a >= b -> ('a < b', True);
    a > b -> ('b < a', False); a <= b -> ('b < a', True); not x -> ('x', True)."""
    flip = False
    while isinstance(expr, ast.UnaryOp) and isinstance(expr.op, ast.Not):
        expr = expr.operand
        flip = not flip
    if isinstance(expr, ast.Compare) and len(expr.ops) == 1:
        op = expr.ops[0]
        l, r = expr.left, expr.comparators[0]
        if type(op) in _CMP_NORM:
            base, f = _CMP_NORM[type(op)]
            return src(ast.Compare(left=l, ops=[base()], comparators=[r])), flip != f
        if isinstance(op, ast.GtE):
            return src(ast.Compare(left=l, ops=[ast.Lt()], comparators=[r])), not flip
        if isinstance(op, ast.Gt):
            return src(ast.Compare(left=r, ops=[ast.Lt()], comparators=[l])), flip
        if isinstance(op, ast.LtE):
            return src(ast.Compare(left=r, ops=[ast.Lt()], comparators=[l])), not flip
    if isinstance(expr, ast.Call) and isinstance(expr.func, ast.Name) and expr.func.id == 'bool' and len(expr.args) == 1:
        k, f = normalise_atom(expr.args[0])
        return k, flip != f
    return src(expr), flip


def _is_value_expr(e):
    return isinstance(e, (ast.Name, ast.Attribute, ast.Subscript)) or \
        (isinstance(e, ast.Call) and isinstance(e.func, ast.Name) and e.func.id == 'getattr')


class Unknown(Exception):
    pass


def tri_vars(expr, out=None, opaque=None):
    """collect tri-valued variables (texts) and opaque boolean atoms (texts) of a guard."""
    if out is None:
        out, opaque = set(), set()
    e = expr
    if isinstance(e, ast.BoolOp):
        for v in e.values:
            tri_vars(v, out, opaque)
    elif isinstance(e, ast.UnaryOp) and isinstance(e.op, ast.Not):
        tri_vars(e.operand, out, opaque)
    elif isinstance(e, ast.IfExp):
        tri_vars(e.test, out, opaque)
        tri_vars(e.body, out, opaque)
        tri_vars(e.orelse, out, opaque)
    elif isinstance(e, ast.Compare) and len(e.ops) == 1 and isinstance(e.ops[0], (ast.Is, ast.IsNot)) \
            and is_none(e.comparators[0]) and _is_value_expr(e.left):
        out.add(src(e.left))
    elif isinstance(e, ast.Call) and isinstance(e.func, ast.Name) and e.func.id == 'bool' and len(e.args) == 1:
        tri_vars(e.args[0], out, opaque)
    elif _len_of(e) is not None:
        out.add(src(_len_of(e)))
    elif _len_cmp(e) is not None:
        out.add(src(_len_cmp(e)[0]))
    elif isinstance(e, ast.Constant):
        pass
    elif _is_value_expr(e):
        out.add(src(e))
    elif _const_compare(e) is not None:
        pass
    else:
        opaque.add(normalise_atom(e)[0])
    return out, opaque


def _len_of(e):
    if isinstance(e, ast.Call) and isinstance(e.func, ast.Name) and e.func.id == 'len' and len(e.args) == 1 \
            and _is_value_expr(e.args[0]):
        return e.args[0]
    return None


def _len_cmp(e):
    """len(x) > 0 / len(x) != 0 / len(x) >= 1 -> (x, True);  len(x) == 0 / < 1 -> (x, False)"""
    if isinstance(e, ast.Compare) and len(e.ops) == 1 and _len_of(e.left) is not None \
            and isinstance(e.comparators[0], ast.Constant) and isinstance(e.comparators[0].value, int):
        c = e.comparators[0].value
        op = e.ops[0]
        x = _len_of(e.left)
        if (isinstance(op, ast.Gt) and c == 0) or (isinstance(op, ast.NotEq) and c == 0) or (isinstance(op, ast.GtE) and c == 1):
            return x, True
        if (isinstance(op, ast.Eq) and c == 0) or (isinstance(op, ast.Lt) and c == 1) or (isinstance(op, ast.LtE) and c == 0):
            return x, False
    return None


def tri_eval(expr, env, oenv):
    """truth value of a guard under env: var text -> TRI, oenv: opaque atom text -> bool."""
    e = expr
    if isinstance(e, ast.BoolOp):
        if isinstance(e.op, ast.And):
            return all(tri_eval(v, env, oenv) for v in e.values)
        return any(tri_eval(v, env, oenv) for v in e.values)
    if isinstance(e, ast.UnaryOp) and isinstance(e.op, ast.Not):
        return not tri_eval(e.operand, env, oenv)
    if isinstance(e, ast.IfExp):
        return tri_eval(e.body, env, oenv) if tri_eval(e.test, env, oenv) else tri_eval(e.orelse, env, oenv)
    if isinstance(e, ast.Compare) and len(e.ops) == 1 and isinstance(e.ops[0], (ast.Is, ast.IsNot)) \
            and is_none(e.comparators[0]) and _is_value_expr(e.left):
        v = env[src(e.left)] == NONE
        return v if isinstance(e.ops[0], ast.Is) else not v
    if isinstance(e, ast.Call) and isinstance(e.func, ast.Name) and e.func.id == 'bool' and len(e.args) == 1:
        return tri_eval(e.args[0], env, oenv)
    if _len_of(e) is not None:
        return env[src(_len_of(e))] == TRUTHY
    if _len_cmp(e) is not None:
        x, pos = _len_cmp(e)
        t = env[src(x)] == TRUTHY
        return t if pos else not t
    if isinstance(e, ast.Constant):
        return bool(e.value)
    if _is_value_expr(e):
        return env[src(e)] == TRUTHY
    c = _const_compare(e)
    if c is not None:
        return c
    k, flip = normalise_atom(e)
    return oenv[k] != flip


def _const_value(e):
    if isinstance(e, ast.Constant):
        return e.value
    if isinstance(e, ast.UnaryOp) and isinstance(e.op, ast.USub) and isinstance(e.operand, ast.Constant):
        return -e.operand.value
    raise ValueError


def _const_compare(e):
    if isinstance(e, ast.Compare) and len(e.ops) == 1:
        try:
            a, b = _const_value(e.left), _const_value(e.comparators[0])
        except ValueError:
            return None
        from .fold import _CMP
        try:
            return bool(_CMP[type(e.ops[0])](a, b))
        except Exception:
            return None
    return None


def valuations(exprs, fixed=None):
    """all (env, oenv) over the variables of exprs.  fixed: var text -> restricted tuple of TRI values."""
    vs, os_ = set(), set()
    for e in exprs:
        tri_vars(e, vs, os_)
    vs, os_ = sorted(vs), sorted(os_)
    doms = [tuple(fixed[v]) if fixed and v in fixed else TRI for v in vs]
    for combo in itertools.product(*doms):
        env = dict(zip(vs, combo))
        for oc in itertools.product((False, True), repeat=len(os_)):
            yield env, dict(zip(os_, oc))


def compare_guards(e1, e2, fixed=None):
    """-> list of (env, oenv, v1, v2) where the guards differ."""
    diff = []
    for env, oenv in valuations([e1, e2], fixed):
        a, b = tri_eval(e1, env, oenv), tri_eval(e2, env, oenv)
        if a != b:
            diff.append((env, oenv, a, b))
    return diff


def conj(conds):
    """AST for the conjunction of [(expr, polarity)]"""
    parts = []
    for e, p in conds:
        parts.append(e if p else ast.UnaryOp(op=ast.Not(), operand=e))
    if not parts:
        return ast.Constant(value=True)
    if len(parts) == 1:
        return parts[0]
    return ast.BoolOp(op=ast.And(), values=parts)


def disj(exprs):
    exprs = list(exprs)
    if not exprs:
        return ast.Constant(value=False)
    if len(exprs) == 1:
        return exprs[0]
    return ast.BoolOp(op=ast.Or(), values=exprs)


def show_env(env, oenv=None):
    s = ', '.join('%s=%s' % kv for kv in sorted(env.items()))
    if oenv:
        s += '; ' + ', '.join('%s=%s' % kv for kv in sorted(oenv.items()))
    return s
