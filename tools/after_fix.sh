#!/bin/bash
# after a commit in /repo: regenerate the reference files, list recorded patches that no longer apply, run every check on the clean tree
cd /verif
/venv/bin/python tools/gen_locals.py | tail -1
for p in seeded/*/patch.diff neutral/*/patch.diff; do git -C /repo apply --check /verif/$p 2>/dev/null || echo "STALE $p"; done
tools/runall.sh 2>&1 | grep -o "C[0-9]* rc=[1-9][0-9]*" ; echo "(non-zero checks listed above, none if empty)"
