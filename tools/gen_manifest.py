#!/venv/bin/python
"""Regenerates /verif/MANIFEST.json from sa/registry.py and the check modules present."""
import json
import os
import sys

ROOT = os.path.dirname(os.path.dirname(os.path.abspath(__file__)))
sys.path.insert(0, ROOT)
from sa import registry  # noqa

props = [json.loads(l) for l in open(os.path.join(ROOT, 'properties.jsonl'))]
checks = []
na = []
for p in props:
    pid = p['id']
    have = os.path.exists(os.path.join(ROOT, 'sa', 'props', pid.lower() + '.py'))
    if have and pid in registry.CLAIMS:
        c = registry.CLAIMS[pid]
        checks.append({
            'property_id': pid,
            'quick_cmd': './check %s' % pid,
            'thorough_cmd': './check %s --thorough' % pid,
            'evidence_file': 'evidence/%s.json' % pid,
            'replay_cmd_template': './check %s --explain {path}' % pid,
            'engine': 'sa',
            'level_claimed': {'category': c['category'], 'text': c['text'], 'design_ref': c['design_ref']},
            'level_note': c['note'],
            'technique': c['technique'],
        })
    else:
        na.append({'property_id': pid,
                   'reason': registry.NOT_APPLICABLE.get(pid, 'check not built yet (static-analysis design in DESIGN.md section 5; build in progress)')})
m = {
    'version': 1,
    'setup_cmd': '/venv/bin/python -m compileall -q sa spec >/dev/null 2>&1; exit 0',
    'hooks': {'guard': 'CASSANDRA_DRIVER_VERIF',
              'enable': 'none needed: every check parses the working tree of /repo; nothing in /repo is instrumented',
              'baseline_off_cmd': './baseline_off.sh', 'source_commits': [], 'add_only': True},
    'engines': [{'name': 'sa', 'path': 'sa/', 'serves_properties': [c['property_id'] for c in checks],
                 'kind_free_text': 'repository-specific static analysis over Python ast / Cython parse trees: resolver, statement CFG, '
                                   'forward dataflow over finite state sets, three-valued guard domain, finite-domain abstract interpretation '
                                   'of encoders/decoders, constant folding, registry extraction; every module is first brought into a canonical form (helper inlining, shape '
                                   'normalisation, bounded search over behaviour-preserving rewrites towards the reference spelling) so that rules see equivalent programs alike'}],
    'checks': checks,
    'notes': 'Static analysis only (see DESIGN.md). ./check <id> exits 0 (held / only listed known findings), 1 (VIOLATION), 2 (ANALYSIS-ERROR). '
             'Known findings: known_findings.json.',
    'not_applicable': na,
}
json.dump(m, open(os.path.join(ROOT, 'MANIFEST.json'), 'w'), indent=1)
print('claimed', len(checks), 'not claimed', len(na))
