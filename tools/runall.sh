#!/bin/sh
# runs every implemented check (quick tier, or "$1" = --thorough) in parallel and prints the exit codes
cd "$(dirname "$0")/.."
ls sa/props/c*.py | sed 's/.*\/c\([0-9]*\)\.py/C\1/' | xargs -P 16 -I{} sh -c './check {} '"$1"' > /root/scratch/runall_{}.out 2>&1; echo "{} rc=$?"' | sort | tr '\n' ' '
echo
grep -l "^VIOLATION\|ANALYSIS-ERROR" /root/scratch/runall_C*.out 2>/dev/null
