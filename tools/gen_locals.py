#!/venv/bin/python
"""gen_locals.py : records, for every function of /repo/cassandra/**/*.py, the ordered list of its local variable names
(after the shape canonicalisation) in /verif/spec/locals.json.  The table is the alpha-renaming reference used by
sa/canon.py; regenerate it only when the current tree is accepted as the tree the rules are written against."""
import ast, json, os, sys
VERIF = os.path.dirname(os.path.dirname(os.path.abspath(__file__)))
sys.path.insert(0, VERIF)
from sa import canon
REPO = os.environ.get('VERIF_REPO', '/repo')
out = {}
outc = {}
funcs = {}
for d, _dirs, files in os.walk(os.path.join(REPO, 'cassandra')):
    for fn in sorted(files):
        if not fn.endswith('.py'):
            continue
        rel = os.path.relpath(os.path.join(d, fn), REPO)
        tree = canon._Shape().visit(ast.parse(open(os.path.join(d, fn)).read()))
        tab = {}
        tabc = {}
        fl = []

        def visit(node, prefix):
            for ch in ast.iter_child_nodes(node):
                if isinstance(ch, (ast.FunctionDef, ast.AsyncFunctionDef, ast.ClassDef)):
                    q = prefix + ch.name
                    visit(ch, q + '.')
                    if isinstance(ch, (ast.FunctionDef, ast.AsyncFunctionDef)) and q not in tab:
                        loc = canon.ordered_locals(ch)
                        if loc:
                            tab[q] = loc
                        fl.append(q)
                        cm = canon.compares_of(ch)
                        ts = canon.tests_of(ch)
                        if cm or ts:
                            tabc[q] = {'cmp': cm, 'tests': ts}
                elif isinstance(ch, (ast.If, ast.Try, ast.With, ast.For, ast.While, ast.ExceptHandler)):
                    visit(ch, prefix)
        visit(tree, '')
        if tab:
            out[rel] = tab
        if tabc:
            outc[rel] = tabc
        funcs[rel] = sorted(set(fl))
n_ = sum(len(v) for v in out.values())
out['__functions__'] = funcs
json.dump(out, open(os.path.join(VERIF, 'spec', 'locals.json'), 'w'), indent=0, sort_keys=True)
json.dump(outc, open(os.path.join(VERIF, 'spec', 'compares.json'), 'w'), indent=0, sort_keys=True)
print(n_, 'functions with locals in', len(out) - 1, 'modules;', sum(len(v) for v in outc.values()), 'with comparisons')

# phase 2: the canonical text of every function of the tree the rules are written against (read by canon.towards)
os.environ['VERIF_NO_TOWARDS'] = '1'
canon._REF = canon._REFC = canon._REFS = None
srcs = {}
for d, _dirs, files in os.walk(os.path.join(REPO, 'cassandra')):
    for fn in sorted(files):
        if not fn.endswith('.py'):
            continue
        rel = os.path.relpath(os.path.join(d, fn), REPO)
        tree = canon.canonicalise(ast.parse(open(os.path.join(d, fn)).read()), rel)
        tab = {}

        def visit2(node, prefix):
            for ch in ast.iter_child_nodes(node):
                if isinstance(ch, (ast.FunctionDef, ast.AsyncFunctionDef, ast.ClassDef)):
                    q = prefix + ch.name
                    visit2(ch, q + '.')
                    if isinstance(ch, (ast.FunctionDef, ast.AsyncFunctionDef)):
                        tab.setdefault(q, []).append(ast.unparse(ch))
                elif isinstance(ch, (ast.If, ast.Try, ast.With, ast.For, ast.While, ast.ExceptHandler)):
                    visit2(ch, prefix)
        visit2(tree, '')
        if tab:
            srcs[rel] = tab
json.dump(srcs, open(os.path.join(VERIF, 'spec', 'reference_src.json'), 'w'), indent=0, sort_keys=True)
print(sum(len(v) for v in srcs.values()), 'function texts')
