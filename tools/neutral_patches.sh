#!/bin/bash
# neutral_patches.sh [dir] : run every check on every verified behaviour-preserving patch under dir (default /verif/neutral); any rc != 0 is a false alarm
dir=${1:-/verif/neutral}
cd "$(dirname "$0")/.."
ls -d $dir/C* | xargs -P 3 -I{} sh -c 'LINES_PER=2 tools/onpatch.sh {}/patch.diff > /root/scratch/np_$(basename {}).out 2>&1'
for d in $dir/C*; do id=$(basename $d); h=$(head -1 /root/scratch/np_$id.out); [ -n "$h" ] && { echo "== $id: $h"; sed -n 2,4p /root/scratch/np_$id.out | cut -c1-220; }; done
