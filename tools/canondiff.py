#!/venv/bin/python
"""canondiff.py <patch.diff> : applies the patch to a scratch copy of /repo/cassandra, canonicalises the touched modules and prints, per function that
still differs from the reference text, a unified diff (reference vs canonical form of the patched tree).  Debugging aid for sa/canon.py."""
import ast, difflib, json, os, shutil, subprocess, sys, tempfile
VERIF = os.path.dirname(os.path.dirname(os.path.abspath(__file__)))
sys.path.insert(0, VERIF)
from sa import canon
patch = os.path.abspath(sys.argv[1])
d = tempfile.mkdtemp(prefix='canondiff_')
try:
    shutil.copytree('/repo/cassandra', os.path.join(d, 'cassandra'), ignore=lambda dd, names: [n for n in names if n == '__pycache__' or n.endswith(('.so', '.pyc'))])
    subprocess.run(['git', 'apply', '--include=cassandra/*', '-p1', patch], cwd=d, check=True)
    files = [l[6:].strip() for l in open(patch) if l.startswith('+++ b/')]
    refs = json.load(open(os.path.join(VERIF, 'spec', 'reference_src.json')))
    for rel in files:
        if not rel.endswith('.py'):
            continue
        tree = canon.canonicalise(ast.parse(open(os.path.join(d, rel)).read()), rel)
        print('==', rel, 'moved:', getattr(tree, '_canon_moved', None))
        seen = {}

        def visit(node, prefix):
            for ch in ast.iter_child_nodes(node):
                if isinstance(ch, (ast.FunctionDef, ast.AsyncFunctionDef, ast.ClassDef)):
                    q = prefix + ch.name
                    visit(ch, q + '.')
                    if isinstance(ch, (ast.FunctionDef, ast.AsyncFunctionDef)):
                        texts = refs.get(rel, {}).get(q)
                        cur = ast.unparse(ch)
                        if texts is None:
                            print('-- new function', q)
                            print(cur)
                        elif cur not in texts:
                            print('-- differs:', q)
                            print('\n'.join(difflib.unified_diff(texts[0].splitlines(), cur.splitlines(), 'reference', 'current', lineterm='', n=1)))
                elif isinstance(ch, (ast.If, ast.Try, ast.With, ast.For, ast.While, ast.ExceptHandler)):
                    visit(ch, prefix)
        visit(tree, '')
finally:
    shutil.rmtree(d, ignore_errors=True)
