#!/bin/bash
# verify_seed.sh <seed dir> <scratch worktree>  -> prints one JSON line
# checks: patch applies; demo fails with the change; demo passes without; pinned suite unchanged with the change.
sd="$1"; wt="$2"
id=$(basename "$sd")
cd "$wt" || exit 2
git checkout -q -- . ; git clean -qfd
git checkout -q --detach "$(git -C /repo rev-parse HEAD)" 2>/dev/null
demo="$sd/demo.py"; runner="/venv/bin/python"
[ -f "$demo" ] || { demo="$sd/test_demo.py"; runner="/venv/bin/python -m pytest -q -p no:cacheprovider"; }
run_demo() { ( cd "$wt" && PYTHONPATH="$wt" timeout 900 $runner "$demo" >/root/scratch/seedlog.$id.$1 2>&1; echo $? ); }
pre=$(run_demo pre)
if ! git apply --check "$sd/patch.diff" 2>/dev/null; then echo "{\"id\":\"$id\",\"applies\":false}"; exit 0; fi
git apply "$sd/patch.diff"
with=$(run_demo with)
suite=$(cd "$wt" && timeout 1500 /venv/bin/python -m pytest -q -p no:cacheprovider --timeout=900 --continue-on-collection-errors 2>&1 | tail -1)
git checkout -q -- . ; git clean -qfd
echo "{\"id\":\"$id\",\"applies\":true,\"demo_without\":$pre,\"demo_with\":$with,\"suite_with\":\"$suite\"}"
