#!/venv/bin/python
"""verify_seeds.py <seed root> <out json> [ids...] : runs verify_seed.sh over seeds in parallel using scratch worktrees."""
import json, os, subprocess, sys, queue, threading
root, out = sys.argv[1], sys.argv[2]
ids = sys.argv[3:] or sorted(os.listdir(root))
wts = queue.Queue()
for i in range(1, 13):
    w = '/tmp/seed/v%02d' % i
    if not os.path.isdir(w):
        subprocess.check_call(['git', '-C', '/repo', 'worktree', 'add', '-q', '--detach', w, 'HEAD'])
    wts.put(w)
res = {}
def work(i):
    w = wts.get()
    try:
        p = subprocess.run(['/verif/tools/verify_seed.sh', os.path.join(root, i), w], capture_output=True, text=True)
        line = p.stdout.strip().splitlines()[-1] if p.stdout.strip() else '{}'
        try:
            res[i] = json.loads(line)
        except Exception:
            res[i] = {'id': i, 'error': p.stdout[-300:] + p.stderr[-300:]}
        print(res[i], flush=True)
    finally:
        wts.put(w)
ths = [threading.Thread(target=work, args=(i,)) for i in ids]
for t in ths: t.start()
for t in ths: t.join()
json.dump(res, open(out, 'w'), indent=1)
