#!/bin/bash
# seedcheck.sh <seed dir or id> [property ids...] : apply the seeded change to /repo, run the checks, undo it.
sd="$1"; shift
[ -d "$sd" ] || sd="/verif/seeded/$sd"
sd=$(cd "$sd" && pwd)
id=$(basename "$sd" | cut -c1-3)
props="${@:-$id}"
cd /verif
if ! git -C /repo apply --check "$sd/patch.diff" 2>/dev/null; then echo "$sd: patch does not apply"; exit 3; fi
git -C /repo apply "$sd/patch.diff"
trap 'git -C /repo checkout -- . ' EXIT
for p in $props; do
  out=$(VERIF_EVIDENCE_DIR=/root/scratch/seedcheck_ev ./check $p 2>&1); rc=$?
  echo "seed=$(basename $sd) check=$p rc=$rc"
  [ -n "$VERBOSE" ] && echo "$out" | grep -v '^VIOLATION' | head -${VERBOSE}
done
