#!/venv/bin/python
"""import_seeds.py <out dir> <verify json> <suffix> : copy verified seeds into /verif/seeded/<id><suffix>/ with the builder's verification record."""
import json, os, shutil, sys
out, vj, suffix = sys.argv[1], sys.argv[2], sys.argv[3]
ver = json.load(open(vj))
for i, r in sorted(ver.items()):
    if not (r.get('applies') and r.get('demo_without') == 0 and r.get('demo_with') not in (0, None) and '350 passed' in r.get('suite_with', '') and '1 failed' in r.get('suite_with', '')):
        print('NOT VERIFIED', i, r)
        continue
    dst = os.path.join('/verif/seeded', i + suffix)
    if i == 'C45' and not os.path.exists('/verif/seeded/C45'):
        dst = '/verif/seeded/C45'
    os.makedirs(dst, exist_ok=True)
    for f in os.listdir(os.path.join(out, i)):
        if f in ('patch.diff', 'demo.py', 'test_demo.py', 'meta.json'):
            shutil.copy(os.path.join(out, i, f), os.path.join(dst, f))
    mp = os.path.join(dst, 'meta.json')
    m = json.load(open(mp))
    m['verified_by_builder'] = {'what_was_run': 'tools/verify_seed.sh in a scratch worktree of /repo HEAD: demo on the unchanged tree, git apply patch.diff, demo again, pinned test suite, revert',
                                'demo_exit_without_change': r['demo_without'], 'demo_exit_with_change': r['demo_with'], 'suite_with_change': r['suite_with'], 'round': 2}
    json.dump(m, open(mp, 'w'), indent=1)
    print('imported', dst)
