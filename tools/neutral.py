#!/venv/bin/python
"""neutral.py [ids...] : behaviour-preserving variants of the functions each check analyses; the check must stay silent.

For every function named in the check's evidence (coverage.functions_analysed) and every operator below, the current
/repo/cassandra tree is copied to a scratch directory, the one function is rewritten (ast.unparse of the module), and the
check is run on the copy (static analysis only).  A VIOLATION on such a variant is a false alarm of the checker.

operators
  log     a logging call inserted as the first statement of the function
  logmid  a logging call inserted before the last top-level statement of the function
  rename  one local variable renamed consistently (not a parameter, not used by a nested function)
  swapif  one `if c: A else: B` rewritten as `if not c: B else: A`
  notis   `x is not None` rewritten as `not (x is None)` (first occurrence)
  renameall every such local renamed; swapif2/3 the second / third two-armed `if`; ternary one conditional expression flipped
"""
import ast, copy, json, os, shutil, subprocess, sys, tempfile
from concurrent.futures import ThreadPoolExecutor

VERIF = os.path.dirname(os.path.dirname(os.path.abspath(__file__)))
REPO = os.environ.get('VERIF_REPO', '/repo')
LOG = ast.parse("log.debug('neutral variant')").body[0]


def find_func(tree, qual):
    parts = qual.split('.')
    node = tree
    for p in parts:
        nxt = None
        for st in ast.walk(node) if node is tree and False else getattr(node, 'body', []):
            if isinstance(st, (ast.FunctionDef, ast.AsyncFunctionDef, ast.ClassDef)) and st.name == p:
                nxt = st
                break
        if nxt is None:
            return None
        node = nxt
    return node if isinstance(node, (ast.FunctionDef, ast.AsyncFunctionDef)) else None


def has_log(tree):
    return any(isinstance(st, ast.Assign) and any(isinstance(t, ast.Name) and t.id == 'log' for t in st.targets) for st in tree.body)


def op_log(f, tree):
    if not has_log(tree):
        return False
    i = 1 if f.body and isinstance(f.body[0], ast.Expr) and isinstance(f.body[0].value, ast.Constant) and isinstance(f.body[0].value.value, str) else 0
    f.body.insert(i, copy.deepcopy(LOG))
    return True


def op_logmid(f, tree):
    if not has_log(tree) or len(f.body) < 2:
        return False
    f.body.insert(len(f.body) - 1, copy.deepcopy(LOG))
    return True


def op_rename(f, tree, all_=False):
    params = set(a.arg for a in f.args.args + f.args.kwonlyargs) | set(x.arg for x in (f.args.vararg, f.args.kwarg) if x)
    nested = set()
    for n in ast.walk(f):
        if n is not f and isinstance(n, (ast.FunctionDef, ast.AsyncFunctionDef, ast.Lambda, ast.ListComp, ast.GeneratorExp, ast.SetComp, ast.DictComp, ast.ClassDef)):
            for x in ast.walk(n):
                if isinstance(x, ast.Name):
                    nested.add(x.id)
    declared = set()
    for n in ast.walk(f):
        if isinstance(n, (ast.Global, ast.Nonlocal)):
            declared |= set(n.names)
    cands = []
    for n in ast.walk(f):
        if isinstance(n, ast.Name) and isinstance(n.ctx, ast.Store) and n.id not in params and n.id not in nested and n.id not in declared and not n.id.startswith('_'):
            if n.id not in cands:
                cands.append(n.id)
    if not cands:
        return False
    for old in (cands if all_ else cands[:1]):
        new = old + '_nv'
        for n in ast.walk(f):
            if isinstance(n, ast.Name) and n.id == old:
                n.id = new
            if isinstance(n, ast.ExceptHandler) and n.name == old:
                n.name = new
    return True


def op_renameall(f, tree):
    return op_rename(f, tree, all_=True)


def op_swapif(f, tree, k=0):
    i = 0
    for n in ast.walk(f):
        if isinstance(n, ast.If) and n.orelse and not (len(n.orelse) == 1 and isinstance(n.orelse[0], ast.If)):
            if i == k:
                n.test = ast.UnaryOp(op=ast.Not(), operand=n.test)
                n.body, n.orelse = n.orelse, n.body
                return True
            i += 1
    return False


def op_swapif2(f, tree):
    return op_swapif(f, tree, 1)


def op_swapif3(f, tree):
    return op_swapif(f, tree, 2)


def op_ternary(f, tree):
    for n in ast.walk(f):
        if isinstance(n, ast.IfExp):
            n.test = ast.UnaryOp(op=ast.Not(), operand=n.test)
            n.body, n.orelse = n.orelse, n.body
            return True
    return False


def op_notis(f, tree):
    class T(ast.NodeTransformer):
        done = False

        def visit_Compare(self, n):
            self.generic_visit(n)
            if not self.done and len(n.ops) == 1 and isinstance(n.ops[0], ast.IsNot) and isinstance(n.comparators[0], ast.Constant) and n.comparators[0].value is None:
                self.done = True
                return ast.UnaryOp(op=ast.Not(), operand=ast.Compare(left=n.left, ops=[ast.Is()], comparators=n.comparators))
            return n
    t = T()
    t.visit(f)
    return t.done


# ---- operators the load-time canonical form does not undo ----------------------------------------------------------
def _own_nodes(f):
    """nodes of f's own scope (nested functions / lambdas / classes excluded)"""
    out = []

    def rec(n):
        for ch in ast.iter_child_nodes(n):
            if isinstance(ch, (ast.FunctionDef, ast.AsyncFunctionDef, ast.Lambda, ast.ClassDef)):
                continue
            out.append(ch)
            rec(ch)
    rec(f)
    return out


def _bodies(f):
    """(owner, field, list) for every statement list of f's own scope"""
    out = [(f, 'body', f.body)]
    for n in _own_nodes(f):
        for fld in ('body', 'orelse', 'finalbody'):
            b = getattr(n, fld, None)
            if isinstance(b, list) and b and isinstance(b[0], ast.stmt):
                out.append((n, fld, b))
        if isinstance(n, ast.Try):
            for h in n.handlers:
                pass
    return out


def _pick(cands, which):
    if not cands:
        return None
    return cands[0] if which == 'first' else cands[-1]


def op_tmpret(f, tree, which='first'):
    cands = []
    for owner, fld, body in _bodies(f):
        for i, st in enumerate(body):
            if isinstance(st, ast.Return) and st.value is not None and not isinstance(st.value, (ast.Name, ast.Constant)):
                cands.append((body, i))
    c = _pick(cands, which)
    if not c:
        return False
    body, i = c
    st = body[i]
    body[i:i + 1] = [ast.Assign(targets=[ast.Name(id='result_nv', ctx=ast.Store())], value=st.value, lineno=st.lineno),
                     ast.Return(value=ast.Name(id='result_nv', ctx=ast.Load()))]
    return True


def op_tmpret_last(f, tree):
    return op_tmpret(f, tree, 'last')


def op_tmpcond(f, tree, which='first'):
    cands = []
    for owner, fld, body in _bodies(f):
        for i, st in enumerate(body):
            if isinstance(st, ast.If) and isinstance(st.test, (ast.Call, ast.Compare, ast.BoolOp, ast.Attribute, ast.UnaryOp)):
                # an `elif` is the single statement of its owner's orelse: hoisting there is still evaluation-order preserving
                cands.append((body, i))
    c = _pick(cands, which)
    if not c:
        return False
    body, i = c
    st = body[i]
    body.insert(i, ast.Assign(targets=[ast.Name(id='cond_nv', ctx=ast.Store())], value=st.test, lineno=st.lineno))
    st.test = ast.Name(id='cond_nv', ctx=ast.Load())
    return True


def op_tmpcond_last(f, tree):
    return op_tmpcond(f, tree, 'last')


def _pure_operand(e):
    if isinstance(e, (ast.Name, ast.Constant)):
        return True
    if isinstance(e, ast.Attribute):
        return _pure_operand(e.value)
    if isinstance(e, ast.Call) and isinstance(e.func, ast.Name) and e.func.id == 'len' and len(e.args) == 1 and not e.keywords:
        return _pure_operand(e.args[0])
    return False


def op_augexpand(f, tree, which='first'):
    cands = [n for n in _own_nodes(f) if isinstance(n, ast.AugAssign) and _pure_operand(n.target)]
    n = _pick(cands, which)
    if n is None:
        return False
    for owner, fld, body in _bodies(f):
        for i, st in enumerate(body):
            if st is n:
                load = copy.deepcopy(n.target)
                for x in ast.walk(load):
                    if hasattr(x, 'ctx'):
                        x.ctx = ast.Load()
                body[i] = ast.Assign(targets=[n.target], value=ast.BinOp(left=load, op=n.op, right=n.value), lineno=n.lineno)
                return True
    return False


def op_augexpand_last(f, tree):
    return op_augexpand(f, tree, 'last')


def op_andnest(f, tree, which='first'):
    cands = [n for n in _own_nodes(f) if isinstance(n, ast.If) and not n.orelse and isinstance(n.test, ast.BoolOp) and isinstance(n.test.op, ast.And)]
    n = _pick(cands, which)
    if n is None:
        return False
    first, rest = n.test.values[0], n.test.values[1:]
    inner = ast.If(test=rest[0] if len(rest) == 1 else ast.BoolOp(op=ast.And(), values=rest), body=n.body, orelse=[])
    n.test = first
    n.body = [inner]
    return True


def op_andnest_last(f, tree):
    return op_andnest(f, tree, 'last')


def op_earlyret(f, tree):
    """the function's last statement `if c: A else: B` becomes `if c: A; return` followed by B (generators excluded)"""
    if any(isinstance(n, (ast.Yield, ast.YieldFrom)) for n in _own_nodes(f)):
        return False
    st = f.body[-1]
    if not (isinstance(st, ast.If) and st.orelse):
        return False
    if not isinstance(st.body[-1], (ast.Return, ast.Raise)):
        st.body.append(ast.Return(value=None))
    rest = st.orelse
    st.orelse = []
    f.body.extend(rest)
    return True


def op_guardnest(f, tree, which='first'):
    """`if c: ...; return/raise` followed by the rest of the block becomes `if c: ... else: <rest>`"""
    cands = []
    for owner, fld, body in _bodies(f):
        for i, st in enumerate(body[:-1]):
            if isinstance(st, ast.If) and not st.orelse and isinstance(st.body[-1], (ast.Return, ast.Raise, ast.Continue, ast.Break)):
                cands.append((body, i))
    c = _pick(cands, which)
    if not c:
        return False
    body, i = c
    st = body[i]
    st.orelse = body[i + 1:]
    del body[i + 1:]
    return True


def op_guardnest_last(f, tree):
    return op_guardnest(f, tree, 'last')


_FLIP = {ast.Lt: ast.Gt, ast.Gt: ast.Lt, ast.LtE: ast.GtE, ast.GtE: ast.LtE, ast.Eq: ast.Eq, ast.NotEq: ast.NotEq}


def op_cmpflip(f, tree, which='first'):
    cands = [n for n in _own_nodes(f) if isinstance(n, ast.Compare) and len(n.ops) == 1 and type(n.ops[0]) in _FLIP
             and _pure_operand(n.left) and _pure_operand(n.comparators[0]) and not (isinstance(n.left, ast.Constant) and isinstance(n.comparators[0], ast.Constant))]
    n = _pick(cands, which)
    if n is None:
        return False
    n.left, n.comparators = n.comparators[0], [n.left]
    n.ops = [_FLIP[type(n.ops[0])]()]
    return True


def op_cmpflip_last(f, tree):
    return op_cmpflip(f, tree, 'last')


def op_addlocal(f, tree):
    i = 1 if f.body and isinstance(f.body[0], ast.Expr) and isinstance(f.body[0].value, ast.Constant) and isinstance(f.body[0].value.value, str) else 0
    f.body.insert(i, ast.Assign(targets=[ast.Name(id='unused_nv', ctx=ast.Store())], value=ast.Constant(value=None), lineno=f.lineno))
    return True


def op_selfalias(f, tree):
    """`this_nv = self` first, then the first statement-level use of `self.` in a call reads through the alias -- skipped: unrealistic"""
    return False


OPS2 = {'tmpret': op_tmpret, 'tmpret_last': op_tmpret_last, 'tmpcond': op_tmpcond, 'tmpcond_last': op_tmpcond_last,
        'augexpand': op_augexpand, 'augexpand_last': op_augexpand_last, 'andnest': op_andnest, 'andnest_last': op_andnest_last,
        'earlyret': op_earlyret, 'guardnest': op_guardnest, 'guardnest_last': op_guardnest_last, 'cmpflip': op_cmpflip,
        'cmpflip_last': op_cmpflip_last, 'addlocal': op_addlocal}


OPS = {'log': op_log, 'logmid': op_logmid, 'rename': op_rename, 'renameall': op_renameall, 'swapif': op_swapif, 'swapif2': op_swapif2, 'swapif3': op_swapif3, 'ternary': op_ternary, 'notis': op_notis}
OPS.update(OPS2)



def one(pid, rel, qual, opname, base):
    path = os.path.join(REPO, rel)
    if not rel.endswith('.py') or not os.path.exists(path):
        return None
    src_text = open(path).read()
    tree = ast.parse(src_text)
    f = find_func(tree, qual)
    if f is None:
        return None
    if not OPS[opname](f, tree):
        return None
    ast.fix_missing_locations(tree)
    new = ast.unparse(tree)
    try:
        compile(new, rel, 'exec')
    except SyntaxError:
        return None
    d = tempfile.mkdtemp(prefix='n_', dir=base)
    try:
        shutil.copytree(os.path.join(REPO, 'cassandra'), os.path.join(d, 'cassandra'), ignore=lambda dd, names: [n for n in names if n == '__pycache__' or n.endswith(('.so', '.pyc'))])
        open(os.path.join(d, rel), 'w').write(new)
        env = dict(os.environ, VERIF_REPO=d, VERIF_EVIDENCE_DIR=os.path.join(d, '_ev'))
        r = subprocess.run(['/venv/bin/python', '-B', '-m', 'sa.main', pid], cwd=VERIF, env=env, capture_output=True, text=True)
        lines = [l for l in r.stdout.splitlines() if ('[%s/' % pid) in l or l.startswith('ANALYSIS-ERROR')]
        return dict(pid=pid, file=rel, function=qual, op=opname, rc=r.returncode, report=[l[:260] for l in lines[:2]])
    finally:
        shutil.rmtree(d, ignore_errors=True)


def main():
    ids = [a for a in sys.argv[1:] if not a.startswith('-')]
    global SEL
    SEL = None
    for a in sys.argv[1:]:
        if a.startswith('-ops='):
            SEL = a[5:].split(',')
            if SEL == ['new']:
                SEL = list(OPS2)
    if not ids:
        ids = sorted(os.path.basename(p)[:-3].upper() for p in __import__('glob').glob(os.path.join(VERIF, 'sa/props/c*.py')))
    jobs = []
    for pid in ids:
        evp = os.path.join(VERIF, 'evidence', '%s.json' % pid)
        if not os.path.exists(evp):
            continue
        ev = json.load(open(evp))
        for fq in ev['coverage'].get('functions_analysed', []):
            rel, qual = fq.split('::', 1)
            for opname in (SEL or OPS):
                jobs.append((pid, rel, qual, opname))
    base = tempfile.mkdtemp(prefix='verif_neutral_')
    try:
        with ThreadPoolExecutor(max_workers=16) as ex:
            res = [r for r in ex.map(lambda j: one(j[0], j[1], j[2], j[3], base), jobs) if r]
    finally:
        shutil.rmtree(base, ignore_errors=True)
    bad = [r for r in res if r['rc'] != 0]
    out = os.environ.get('NEUTRAL_OUT', '/tmp/neutral.json')
    json.dump(res, open(out, 'w'), indent=1)
    print('%d neutral variants analysed, %d alarms (%d violations, %d analysis errors)' % (len(res), len(bad), sum(1 for r in bad if r['rc'] == 1), sum(1 for r in bad if r['rc'] == 2)))
    per = {}
    for r in bad:
        per.setdefault(r['pid'], []).append(r)
    for pid in sorted(per):
        print(pid, len(per[pid]), 'alarms:', sorted(set('%s/%s' % (r['function'].split('.')[-1], r['op']) for r in per[pid]))[:12])
    return 1 if bad else 0


if __name__ == '__main__':
    sys.exit(main())
