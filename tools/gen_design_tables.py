#!/venv/bin/python
"""gen_design_tables.py : writes the per-seed table of DESIGN.md section 13 from variants/index.json (which check / rule reports which recorded change)."""
import json, os, re
VERIF = os.path.dirname(os.path.dirname(os.path.abspath(__file__)))
idx = json.load(open(os.path.join(VERIF, 'variants', 'index.json')))
rows = []
stats = {}
for v in idx['variants']:
    if v.get('silent'):
        continue
    name = v['name'].replace('seed-', '')
    own = v['own']
    e = v.get('expect', {})
    rules = v.get('rules', {})
    own_res = e.get(own)
    rnd = 'r10' if '-r10' in name else 'r9' if '-r9' in name else 'r8' if '-r8' in name else 'r7' if '-r7' in name else 'r6' if '-r6' in name else 'r5' if '-r5' in name else 'r4' if '-r4' in name else 'r3' if '-r3' in name else 'r2' if '-r2' in name else 'r1'
    st = stats.setdefault(rnd, [0, 0, 0])
    st[0] += 1
    if own_res == 'caught':
        st[1] += 1
    if any(x == 'caught' for x in e.values()):
        st[2] += 1
    others = sorted(k for k, x in e.items() if x == 'caught' and k != own)
    what = re.sub(r'\s+', ' ', v.get('what', ''))[:110].replace('|', '/')
    rows.append('| %s | %s | %s | %s | %s |' % (name, own, 'own: ' + ', '.join(r.split('.', 1)[-1] for r in rules.get(own, [])) if own_res == 'caught' else ('**miss**' if own_res == 'miss' else str(own_res)),
                                                ', '.join(others) or '–', what))
out = ['Per round, with the final rule set (a regression statement - the measurements at receipt are in section 12): ' + '; '.join('%s: %d seeds, own check reports %d, some check reports %d' % (k, v[0], v[1], v[2]) for k, v in sorted(stats.items())) + '.', '',
       '| change | property | reported by its own check (rules) | also reported by | what was changed |', '|---|---|---|---|---|'] + rows
p = os.path.join(VERIF, 'DESIGN.md')
s = open(p).read()
a = s.index('<!-- SEED-TABLE-BEGIN -->') + len('<!-- SEED-TABLE-BEGIN -->')
b = s.index('<!-- SEED-TABLE-END -->')
open(p, 'w').write(s[:a] + '\n' + '\n'.join(out) + '\n' + s[b:])
print(stats)
