#!/bin/bash
# onpatch.sh <patch.diff> [property ids... | all] : copy /repo/cassandra to a scratch dir, apply the patch there, run the
# named checks (default: all) on the copy (static analysis only), print rc and the report lines, remove the copy.
patch=$(readlink -f "$1"); shift
props="$@"
cd "$(dirname "$0")/.."
[ -z "$props" -o "$props" = all ] && props=$(ls sa/props/c*.py | sed 's/.*\/c\([0-9]*\)\.py/C\1/')
d=$(mktemp -d /root/scratch/onpatch_XXXXXX)
trap 'rm -rf "$d"' EXIT
mkdir -p "$d/cassandra" && rsync -a --exclude=__pycache__ --exclude='*.so' --exclude='*.pyc' ${VERIF_REPO:-/repo}/cassandra/ "$d/cassandra/"
( cd "$d" && git apply --include='cassandra/*' -p1 "$patch" ) || { echo "patch does not apply"; exit 3; }
export VERIF_REPO="$d" VERIF_EVIDENCE_DIR="$d/_ev"
echo $props | tr ' ' '\n' | xargs -P 16 -I{} sh -c './check {} > '"$d"'/out_{} 2>&1; echo "{} rc=$?" >> '"$d"'/rcs'
sort "$d/rcs" | grep -v 'rc=0' | tr '\n' ' '; echo
for p in $props; do grep -h -v '^VIOLATION' "$d/out_$p" | grep -i "\[$p/\|ANALYSIS-ERROR" | head -${LINES_PER:-4}; done
