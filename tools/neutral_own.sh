#!/bin/bash
# neutral_own.sh : every verified neutral patch against the check of its own property (fast form of neutral_patches.sh)
cd "$(dirname "$0")/.."
ls neutral | xargs -P 12 -I{} sh -c 'id={}; tools/onpatch.sh neutral/$id/patch.diff $(echo $id | cut -c1-3) > /root/scratch/no_$id.out 2>&1'
n=0; for d in neutral/C*; do id=$(basename $d); h=$(head -1 /root/scratch/no_$id.out); if [ -n "$h" ]; then n=$((n+1)); echo "== $id: $h $(sed -n 2p /root/scratch/no_$id.out | cut -c1-230)"; fi; done; echo "alarms: $n"
