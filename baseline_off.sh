#!/bin/sh
# Runs the repository's pinned baseline with no verification guard set
# (no check in /verif instruments /repo, so there is nothing to switch off).
unset CASSANDRA_DRIVER_VERIF
cd /repo && exec /venv/bin/python -m pytest -ra -q -p no:cacheprovider --timeout=900 --continue-on-collection-errors "$@"
