import struct


def body_and_tail(data):
    l = len(data)
    nblocks = l // 16
    tail = l % 16
    if nblocks:
        # we use '<', specifying little-endian byte order for data bigger than
        # a byte so behavior is the same on little- and big-endian platforms
        return struct.unpack_from('<' + ('qq' * nblocks), data), struct.unpack_from('b' * tail, data, -tail), l
    else:
        return tuple(), struct.unpack_from('b' * tail, data, -tail), l


def rotl64(x, r):
    # note: not a general-purpose function because it leaves the high-order bits intact
    # suitable for this use case without wasting cycles
    mask = 2 ** r - 1
    rotated = (x << r) | ((x >> 64 - r) & mask)
    return rotated


def fmix(k):
    # masking off the 31s bits that would be leftover after >> 33 a 64-bit number
    k ^= (k >> 33) & 0x7fffffff
    k *= 0xff51afd7ed558ccd
    k ^= (k >> 33) & 0x7fffffff
    k *= 0xc4ceb9fe1a85ec53
    k ^= (k >> 33) & 0x7fffffff
    return k


INT64_MAX = int(2 ** 63 - 1)
INT64_MIN = -INT64_MAX - 1
INT64_OVF_OFFSET = INT64_MAX + 1
INT64_OVF_DIV = 2 * INT64_OVF_OFFSET


def truncate_int64(x):
    if not INT64_MIN <= x <= INT64_MAX:
        x = (x + INT64_OVF_OFFSET) % INT64_OVF_DIV - INT64_OVF_OFFSET
    return x


def _murmur3(data):

    h1 = h2 = 0

    c1 = -8663945395140668459  # 0x87c37b91114253d5
    c2 = 0x4cf5ad432745937f

    body, tail, total_len = body_and_tail(data)

    # body
    for i in range(0, len(body), 2):
        k1 = body[i]
        k2 = body[i + 1]

        k1 *= c1
        k1 = rotl64(k1, 31)
        k1 *= c2
        h1 ^= k1

        h1 = rotl64(h1, 27)
        h1 += h2
        h1 = h1 * 5 + 0x52dce729

        k2 *= c2
        k2 = rotl64(k2, 33)
        k2 *= c1
        h2 ^= k2

        h2 = rotl64(h2, 31)
        h2 += h1
        h2 = h2 * 5 + 0x38495ab5

    # tail
    k1 = k2 = 0
    len_tail = len(tail)
    if len_tail > 8:
        for i in range(len_tail - 1, 7, -1):
            k2 ^= tail[i] << (i - 8) * 8
        k2 *= c2
        k2 = rotl64(k2, 33)
        k2 *= c1
        h2 ^= k2

    if len_tail:
        for i in range(min(7, len_tail - 1), -1, -1):
            k1 ^= tail[i] << i * 8
        k1 *= c1
        k1 = rotl64(k1, 31)
        k1 *= c2
        h1 ^= k1

    # finalization
    h1 ^= total_len
    h2 ^= total_len

    h1 += h2
    h2 += h1

    h1 = fmix(h1)
    h2 = fmix(h2)

    h1 += h2

    return truncate_int64(h1)

try:
    from cassandra.cmurmur3 import murmur3
except ImportError:
    murmur3 = _murmur3
