"""Reference table of Cassandra's token functions, written from Cassandra's sources
(org.apache.cassandra.utils.MurmurHash.hash3_x64_128 as used by Murmur3Partitioner,
RandomPartitioner / FBUtilities.hashToBigInteger, ByteOrderedPartitioner).  Not derived from the driver."""

C1 = 0x87c37b91114253d5
C2 = 0x4cf5ad432745937f
# rotl64 amounts in order: block k1, block h1, block k2, block h2, tail k2, tail k1
ROTATIONS = [('k1', 31), ('h1', 27), ('k2', 33), ('h2', 31), ('k2', 33), ('k1', 31)]
# h = h * 5 + c
BLOCK_MIX = [('h1', 5, 0x52dce729), ('h2', 5, 0x38495ab5)]
FMIX_MULTIPLIERS = [0xff51afd7ed558ccd, 0xc4ceb9fe1a85ec53]
FMIX_SHIFTS = [33, 33, 33]          # unsigned (logical) shifts


def tail_table(tail_len):
    """{(register, byte index, left shift)} xor-ed in for a tail of tail_len bytes; bytes are SIGNED (Java byte -> long)."""
    out = set()
    for i in range(tail_len):
        out.add(('k2', i, (i - 8) * 8) if i >= 8 else ('k1', i, i * 8))
    return out


TAIL_BYTES_SIGNED = True
SEED = 0
# Murmur3Partitioner.normalize: Long.MIN_VALUE -> Long.MAX_VALUE
MIN_LONG = -2 ** 63
MAX_LONG = 2 ** 63 - 1
PARTITIONER_TOKEN = {'Murmur3Partitioner': 'Murmur3Token', 'RandomPartitioner': 'MD5Token', 'ByteOrderedPartitioner': 'BytesToken'}
