"""Hand-written tables from the Apache Cassandra native protocol specifications
(native_protocol_v1.spec ... v5.spec) and, for the DSE-private items, from what
DSE documents publicly (width/presence only).  This file is the independent
oracle for C03/C04; it contains no driver code and is not derived from it.

Wire primitives (spec section 3, "Notations"):
  byte=1 unsigned, short=2 unsigned, int=4 signed, long=8 signed,
  string=[short n][n bytes utf8], long string=[int n][n bytes],
  bytes=[int n][n bytes] (n<0: null), value=[int n][...] (n=-1 null, n=-2 not set, v4+),
  short bytes=[short n][n bytes], string list=[short n][string]*,
  string map=[short n]([string][string])*, string multimap=[short n]([string][string list])*,
  bytes map=[short n]([string][bytes])*, inet=[byte n][n bytes][int port],
  inetaddr=[byte n][n bytes], consistency=short.
"""

V1, V2, V3, V4, V5, V6, DSE_V1, DSE_V2 = 1, 2, 3, 4, 5, 6, 0x41, 0x42
ALL_VERSIONS = (V1, V2, V3, V4, V5, V6, DSE_V1, DSE_V2)
BETA = (V6,)

# struct formats of the primitives (big endian); for each the set of acceptable formats
PRIM_FORMATS = {
    'byte': ('>B',), 'short': ('>H',), 'int': ('>i',), 'uint': ('>I',), 'long': ('>q', '>Q'),
}

# frame header (spec section 2): v1/v2: version(1) flags(1) stream(1, signed) opcode(1) length(4)
#                                v3+  : version(1) flags(1) stream(2, signed) opcode(1) length(4)
HEADER_FORMAT = {'v1v2': '>BBbB', 'v3+': '>BBhB'}
HEADER_FLAGS = {'COMPRESSED_FLAG': 0x01, 'TRACING_FLAG': 0x02, 'CUSTOM_PAYLOAD_FLAG': 0x04,
                'WARNING_FLAG': 0x08, 'USE_BETA_FLAG': 0x10}

OPCODES = {
    'ERROR': 0x00, 'STARTUP': 0x01, 'READY': 0x02, 'AUTHENTICATE': 0x03, 'CREDENTIALS': 0x04,
    'OPTIONS': 0x05, 'SUPPORTED': 0x06, 'QUERY': 0x07, 'RESULT': 0x08, 'PREPARE': 0x09,
    'EXECUTE': 0x0A, 'REGISTER': 0x0B, 'EVENT': 0x0C, 'BATCH': 0x0D, 'AUTH_CHALLENGE': 0x0E,
    'AUTH_RESPONSE': 0x0F, 'AUTH_SUCCESS': 0x10,
    'REVISE_REQUEST': 0xFF,    # DSE private
    'REVIEW_REQUEST': 0xFF,
}

# query flags, spec section 4.1.4 (v2..v5) -- bit values
QUERY_FLAGS = {
    'values': 0x01, 'skip_metadata': 0x02, 'page_size': 0x04, 'paging_state': 0x08,
    'serial_consistency': 0x10, 'timestamp': 0x20, 'names_for_values': 0x40, 'keyspace': 0x80,
    # DSE private
    'page_size_bytes': 0x40000000, 'continuous_paging': 0x80000000,
}
BATCH_FLAGS = {'serial_consistency': 0x10, 'timestamp': 0x20, 'names_for_values': 0x40, 'keyspace': 0x80}
PREPARE_FLAGS = {'keyspace': 0x01}


def is_dse(v):
    return v >= DSE_V1


def int_query_flags(v):
    """v5 widened <flags> of QUERY/EXECUTE/BATCH from [byte] to [int]; DSE v1/v2 too."""
    return v >= V5


def keyspace_supported(v):
    """per-request keyspace: v5+ and DSE v2 (not DSE v1)."""
    return v >= V5 and v != DSE_V1


def prepare_flags_supported(v):
    return v >= V5 and v != DSE_V1


def result_metadata_id_supported(v):
    return v >= V5 and v != DSE_V1


def continuous_paging_supported(v):
    return v >= DSE_V1


def continuous_paging_next_pages(v):
    return v >= DSE_V2


def checksumming(v):
    return V5 <= v < DSE_V1


# when an option may be requested (else the driver must reject, C03 statement)
OPTION_MIN = {
    'serial_consistency': lambda v: v >= V2,
    'page_size': lambda v: v >= V2,
    'paging_state': lambda v: v >= V2,
    'keyspace': keyspace_supported,
    'continuous_paging': continuous_paging_supported,
    'custom_payload': lambda v: v >= V4,
}


def query_parameters(v, present):
    """ordered fields of <query_parameters> (spec 4.1.4) for version v >= 2 and the set of present options.
    Each field is (primitive, role)."""
    out = [('consistency', 'consistency')]
    out.append(('uint' if int_query_flags(v) else 'byte', 'flags'))
    if 'values' in present:
        out.append(('short', 'n_values'))
        out.append(('loop', [('value', 'value')]))
    if 'page_size' in present:
        out.append(('int', 'page_size'))
    if 'paging_state' in present:
        out.append(('bytes', 'paging_state'))
    if 'serial_consistency' in present:
        out.append(('consistency', 'serial_consistency'))
    if 'timestamp' in present:
        out.append(('long', 'timestamp'))
    if 'keyspace' in present:
        out.append(('string', 'keyspace'))
    if 'continuous_paging' in present:
        out.append(('int', 'max_pages'))
        out.append(('int', 'max_pages_per_second'))
        if continuous_paging_next_pages(v):
            out.append(('int', 'max_queue_size'))
    return out


def query_body(v, present):
    if v == V1:
        # v1 spec 4.1.4: <query><consistency>
        return [('long string', 'query'), ('consistency', 'consistency')]
    return [('long string', 'query')] + query_parameters(v, present)


def execute_body(v, present):
    if v == V1:
        # v1 spec 4.1.6: <id><n><value_1>....<value_n><consistency>
        return [('short bytes', 'query_id'), ('short', 'n_values'), ('loop', [('value', 'value')]),
                ('consistency', 'consistency')]
    out = [('short bytes', 'query_id')]
    if result_metadata_id_supported(v):
        out.append(('short bytes', 'result_metadata_id'))
    return out + query_parameters(v, present)


def prepare_body(v, present):
    out = [('long string', 'query')]
    if prepare_flags_supported(v):
        out.append(('uint', 'flags'))
        if 'keyspace' in present:
            out.append(('string', 'keyspace'))
    return out


def batch_body(v, present):
    """spec 4.1.7.  <type><n><query_1>...<query_n><consistency>[<flags>[<serial_consistency>][<timestamp>][<keyspace>]]"""
    q = [('byte', 'kind'),
         ('alt', {0: [('long string', 'query_string')], 1: [('short bytes', 'query_id')]}),
         ('short', 'n_values'), ('loop', [('value', 'value')])]
    out = [('byte', 'batch_type'), ('short', 'n_queries'), ('loop', q), ('consistency', 'consistency')]
    if v >= V3:
        out.append(('uint' if int_query_flags(v) else 'byte', 'flags'))
        if 'serial_consistency' in present:
            out.append(('consistency', 'serial_consistency'))
        if 'timestamp' in present:
            out.append(('long', 'timestamp'))
        if 'keyspace' in present:
            out.append(('string', 'keyspace'))
    return out


SIMPLE_BODIES = {
    'STARTUP': [('string map', 'options')],
    'OPTIONS': [],
    'AUTH_RESPONSE': [('bytes', 'token')],
    'REGISTER': [('string list', 'event_types')],
    # v1 only
    'CREDENTIALS': [('short', 'n'), ('loop', [('string', 'key'), ('string', 'value')])],
}

# ---------------------------------------------------------------- responses (C04)

RESULT_KINDS = {'VOID': 1, 'ROWS': 2, 'SET_KEYSPACE': 3, 'PREPARED': 4, 'SCHEMA_CHANGE': 5}
ROWS_FLAGS = {'global_tables_spec': 0x0001, 'has_more_pages': 0x0002, 'no_metadata': 0x0004,
              'metadata_changed': 0x0008,
              'continuous_paging': 0x40000000, 'last_continuous_page': 0x80000000}   # last two DSE private

# error codes (spec section 9) -> extra fields after <code:int><message:string>
ERROR_CODES = {
    0x0000: ('ServerError', []),
    0x000A: ('ProtocolError', []),
    0x0100: ('AuthenticationError', []),
    0x1000: ('Unavailable', [('consistency', 'consistency'), ('int', 'required_replicas'), ('int', 'alive_replicas')]),
    0x1001: ('Overloaded', []),
    0x1002: ('IsBootstrapping', []),
    0x1003: ('TruncateError', []),
    0x1100: ('WriteTimeout', [('consistency', 'consistency'), ('int', 'received_responses'),
                              ('int', 'required_responses'), ('string', 'write_type')]),
    0x1200: ('ReadTimeout', [('consistency', 'consistency'), ('int', 'received_responses'),
                             ('int', 'required_responses'), ('byte', 'data_retrieved')]),
    0x1300: ('ReadFailure', [('consistency', 'consistency'), ('int', 'received_responses'),
                             ('int', 'required_responses'), ('failures', 'failures'), ('byte', 'data_retrieved')]),
    0x1400: ('FunctionFailure', [('string', 'keyspace'), ('string', 'function'), ('string list', 'arg_types')]),
    0x1500: ('WriteFailure', [('consistency', 'consistency'), ('int', 'received_responses'),
                              ('int', 'required_responses'), ('failures', 'failures'), ('string', 'write_type')]),
    0x1600: ('CDCWriteFailure', []),
    0x1700: ('CASWriteUnknown', [('consistency', 'consistency'), ('int', 'received_responses'), ('int', 'required_responses')]),
    0x2000: ('SyntaxError', []),
    0x2100: ('Unauthorized', []),
    0x2200: ('Invalid', []),
    0x2300: ('ConfigError', []),
    0x2400: ('AlreadyExists', [('string', 'keyspace'), ('string', 'table')]),
    0x2500: ('Unprepared', [('short bytes', 'query_id')]),
}
# v5: <reasonmap> = [int n]([inetaddr][short code])* ; v4: [int numfailures]
def failures_field(v):
    return 'reasonmap' if v >= V5 else 'int'

# documented exception type per error code (driver docs, cassandra/__init__.py)
ERROR_EXCEPTIONS = {
    0x1000: 'Unavailable', 0x1100: 'WriteTimeout', 0x1200: 'ReadTimeout', 0x1300: 'ReadFailure',
    0x1400: 'FunctionFailure', 0x1500: 'WriteFailure', 0x1600: 'CDCWriteFailure', 0x2400: 'AlreadyExists',
    0x0100: 'AuthenticationFailed',
}

# type option ids (spec section 4.2.5.2 "[option]")
TYPE_CODES = {
    0x0000: 'Custom', 0x0001: 'Ascii', 0x0002: 'Bigint', 0x0003: 'Blob', 0x0004: 'Boolean', 0x0005: 'Counter',
    0x0006: 'Decimal', 0x0007: 'Double', 0x0008: 'Float', 0x0009: 'Int', 0x000A: 'Text', 0x000B: 'Timestamp',
    0x000C: 'Uuid', 0x000D: 'Varchar', 0x000E: 'Varint', 0x000F: 'Timeuuid', 0x0010: 'Inet', 0x0011: 'Date',
    0x0012: 'Time', 0x0013: 'Smallint', 0x0014: 'Tinyint', 0x0015: 'Duration',
    0x0020: 'List', 0x0021: 'Map', 0x0022: 'Set', 0x0030: 'UDT', 0x0031: 'Tuple',
}
# code -> driver cqltypes class name expected
TYPE_CODE_CLASSES = {
    0x0001: 'AsciiType', 0x0002: 'LongType', 0x0003: 'BytesType', 0x0004: 'BooleanType',
    0x0005: 'CounterColumnType', 0x0006: 'DecimalType', 0x0007: 'DoubleType', 0x0008: 'FloatType',
    0x0009: 'Int32Type', 0x000A: 'UTF8Type', 0x000B: 'DateType', 0x000C: 'UUIDType', 0x000D: 'UTF8Type',
    0x000E: 'IntegerType', 0x000F: 'TimeUUIDType', 0x0010: 'InetAddressType', 0x0011: 'SimpleDateType',
    0x0012: 'TimeType', 0x0013: 'ShortType', 0x0014: 'ByteType', 0x0015: 'DurationType',
    0x0020: 'ListType', 0x0021: 'MapType', 0x0022: 'SetType', 0x0030: 'UserType', 0x0031: 'TupleType',
}

# ---------------------------------------------------------------- CQL value encodings (spec section 6, Cassandra *Serializer classes)
# class in cassandra/cqltypes.py -> acceptable sets of struct formats / named codecs used by the writer
VALUE_FORMATS = {
    'BooleanType': [{'>b'}, {'>B'}],           # one byte, 0 / 1
    'ByteType': [{'>b'}],                      # tinyint: 1-byte two's complement
    'ShortType': [{'>h'}],                     # smallint: 2-byte two's complement
    'Int32Type': [{'>i'}],
    'LongType': [{'>q'}],
    'FloatType': [{'>f'}],
    'DoubleType': [{'>d'}],
    'IntegerType': [{'varint'}],               # minimal two's complement
    'DecimalType': [{'>i', 'varint'}],         # [int scale][varint unscaled]
    'DateType': [{'>q'}],                      # timestamp: 8-byte signed milliseconds
    'SimpleDateType': [{'>I'}],                # date: unsigned 32-bit, epoch at 2**31
    'TimeType': [{'>q'}],                      # time: 8-byte signed nanoseconds
    'DurationType': [{'vints'}],               # three zig-zag vints: months, days, nanoseconds
    'UUIDType': [set()], 'TimeUUIDType': [set()], 'InetAddressType': [set()],
    'BytesType': [set()], 'AsciiType': [set()], 'UTF8Type': [set()],
}
DATE_EPOCH_OFFSET = 2 ** 31


def collection_layout(kind, v):
    """(count format, element length format) of list/set/map at protocol version v; tuples/UDT fields always int32."""
    if kind in ('list', 'set', 'map'):
        return ('>i', '>i') if v >= 3 else ('>H', '>H')
    if kind in ('tuple', 'udt'):
        return (None, '>i')
    raise KeyError(kind)


def vint_extra_bytes(first_byte):
    """number of extra bytes of a vint = number of leading 1 bits of its first byte (VIntCoding)."""
    n = 0
    while n < 8 and first_byte & (0x80 >> n):
        n += 1
    return n

# ---------------------------------------------------------------- type names (C28): marshal class name -> (CQL name, number of subtypes)
TYPE_NAMES = {
    'BytesType': ('blob', 0), 'DecimalType': ('decimal', 0), 'UUIDType': ('uuid', 0), 'BooleanType': ('boolean', 0), 'ByteType': ('tinyint', 0),
    'AsciiType': ('ascii', 0), 'FloatType': ('float', 0), 'DoubleType': ('double', 0), 'LongType': ('bigint', 0), 'Int32Type': ('int', 0),
    'IntegerType': ('varint', 0), 'InetAddressType': ('inet', 0), 'CounterColumnType': ('counter', 0), 'DateType': ('timestamp', 0),
    'TimestampType': ('timestamp', 0), 'TimeUUIDType': ('timeuuid', 0), 'SimpleDateType': ('date', 0), 'ShortType': ('smallint', 0),
    'TimeType': ('time', 0), 'DurationType': ('duration', 0), 'UTF8Type': ('text', 0), 'VarcharType': ('varchar', 0),
    'ListType': ('list', 1), 'SetType': ('set', 1), 'MapType': ('map', 2), 'TupleType': ('tuple', 'UNKNOWN'),
    'ReversedType': ('org.apache.cassandra.db.marshal.ReversedType', 1), 'FrozenType': ('frozen', 1),
}
